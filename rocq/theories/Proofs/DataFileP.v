(** Proofs about M-File: the column codec; what a session appends is loaded back exactly once
    for the right run, with consecutive record ids; -r; atomic replacement. *)
From Coq Require Import List ZArith NArith Bool Arith Lia.
Import ListNotations.
From RV Require Import Lib.Str Model.DataFile.
Local Open Scope N_scope.

(** ** the column codec *)
Lemma unescape_escape : forall s, unescape (escape s) = s.
Proof.
  induction s as [|c r IH]; [reflexivity|]. simpl.
  destruct (N.eqb_spec c c_bs); [subst; simpl; rewrite IH; reflexivity|].
  destruct (N.eqb_spec c c_tab); [subst; simpl; rewrite IH; reflexivity|].
  destruct (N.eqb_spec c c_lf); [subst; simpl; rewrite IH; reflexivity|].
  destruct (N.eqb_spec c c_cr); [subst; simpl; rewrite IH; reflexivity|].
  simpl. destruct (N.eqb_spec c c_bs); [contradiction|]. rewrite IH. reflexivity.
Qed.

Lemma escape_clean : forall s c, In c (escape s) -> c <> c_tab /\ c <> c_lf /\ c <> c_cr.
Proof.
  induction s as [|x r IH]; intros c H; [contradiction|]. simpl in H.
  destruct (N.eqb_spec x c_bs); [destruct H as [H|[H|H]]; [subst; repeat split; discriminate | subst; repeat split; discriminate | auto]|].
  destruct (N.eqb_spec x c_tab); [destruct H as [H|[H|H]]; [subst; repeat split; discriminate | subst; repeat split; discriminate | auto]|].
  destruct (N.eqb_spec x c_lf); [destruct H as [H|[H|H]]; [subst; repeat split; discriminate | subst; repeat split; discriminate | auto]|].
  destruct (N.eqb_spec x c_cr); [destruct H as [H|[H|H]]; [subst; repeat split; discriminate | subst; repeat split; discriminate | auto]|].
  destruct H as [H|H]; [subst; repeat split; assumption | auto].
Qed.

Lemma split_tab_aux_app : forall x cur rest,
  ~ In c_tab x -> split_tab_aux (x ++ c_tab :: rest) cur = (rev cur ++ x) :: split_tab_aux rest [].
Proof.
  induction x as [|c x IH]; intros cur rest H; simpl.
  - rewrite app_nil_r. reflexivity.
  - destruct (N.eqb_spec c c_tab); [subst; exfalso; apply H; left; reflexivity|].
    rewrite IH by (intro; apply H; right; assumption). simpl. rewrite <- app_assoc. reflexivity.
Qed.
Lemma split_tab_aux_last : forall x cur, ~ In c_tab x -> split_tab_aux x cur = [rev cur ++ x].
Proof.
  induction x as [|c x IH]; intros cur H; simpl.
  - rewrite app_nil_r. reflexivity.
  - destruct (N.eqb_spec c c_tab); [subst; exfalso; apply H; left; reflexivity|].
    rewrite IH by (intro; apply H; right; assumption). simpl. rewrite <- app_assoc. reflexivity.
Qed.

Lemma split_join_tab : forall cols, cols <> [] -> Forall (fun x => ~ In c_tab x) cols -> split_tab (join_tab cols) = cols.
Proof.
  induction cols as [|x r IH]; intros Hne H; [contradiction|]. inversion H; subst.
  destruct r as [|y r'].
  - simpl. unfold split_tab. rewrite split_tab_aux_last by assumption. reflexivity.
  - change (join_tab (x :: y :: r')) with (x ++ c_tab :: join_tab (y :: r')).
    unfold split_tab. rewrite split_tab_aux_app by assumption. simpl. f_equal.
    apply IH; [discriminate | assumption].
Qed.

(** a written measurement line is one line, and its columns are read back exactly, whatever
    characters they contain *)
Theorem columns_roundtrip : forall cols, cols <> [] ->
  read_columns (write_columns cols) = cols
  /\ ~ In c_lf (write_columns cols) /\ ~ In c_cr (write_columns cols).
Proof.
  intros cols Hne. unfold read_columns, write_columns. split; [|split].
  - rewrite split_join_tab.
    + rewrite map_map. rewrite <- (map_id cols) at 2. apply map_ext. apply unescape_escape.
    + destruct cols; [contradiction | discriminate].
    + apply Forall_forall. intros x Hx. apply in_map_iff in Hx. destruct Hx as [y [E _]]. subst.
      intro Hin. apply escape_clean in Hin. destruct Hin as [Ht _]. apply Ht. reflexivity.
  - intro Hin. assert (G : forall l, In c_lf (join_tab (map escape l)) -> False).
    { induction l as [|x [|y r] IH]; simpl; intro H; [contradiction| |].
      - apply escape_clean in H. destruct H as [_ [H _]]. apply H; reflexivity.
      - apply in_app_or in H. destruct H as [H|[H|H]].
        + apply escape_clean in H. destruct H as [_ [H _]]. apply H; reflexivity.
        + discriminate.
        + apply IH. exact H. }
    exact (G cols Hin).
  - intro Hin. assert (G : forall l, In c_cr (join_tab (map escape l)) -> False).
    { induction l as [|x [|y r] IH]; simpl; intro H; [contradiction| |].
      - apply escape_clean in H. destruct H as [_ [_ H]]. apply H; reflexivity.
      - apply in_app_or in H. destruct H as [H|[H|H]].
        + apply escape_clean in H. destruct H as [_ [_ H]]. apply H; reflexivity.
        + discriminate.
        + apply IH. exact H. }
    exact (G cols Hin).
Qed.

Local Close Scope N_scope.

(** ** loading what a session wrote *)
Definition cur_of (s : lstate) (rid : nat) : list meas :=
  match open_dp s with Some (prev, ms) => if Nat.eqb prev rid then ms else [] | None => [] end.
Definition clean (s : lstate) : Prop := forall rid, cur_of s rid = [].

Lemma load_line_data_nontotal : forall s m key,
  crashed s = false -> nth_error (runs s) (m_rid m) = Some key -> m_total m = false ->
  Forall (fun m0 => m_inv m0 = m_inv m) (cur_of s (m_rid m)) ->
  load_line s (LData m) = with_open s (Some (m_rid m, cur_of s (m_rid m) ++ [m])).
Proof.
  intros s m key Hc Hn Ht Hi. unfold load_line. rewrite Hc, Hn. fold (cur_of s (m_rid m)).
  destruct (cur_of s (m_rid m)) as [|m0 r] eqn:E; rewrite Ht; [reflexivity|].
  inversion Hi; subst. rewrite H1, Nat.eqb_refl. reflexivity.
Qed.

Lemma load_line_data_total : forall s m key,
  crashed s = false -> nth_error (runs s) (m_rid m) = Some key -> m_total m = true ->
  Forall (fun m0 => m_inv m0 = m_inv m) (cur_of s (m_rid m)) ->
  load_line s (LData m) =
  {| benches := benches s; runs := runs s; open_dp := Some (m_rid m, []);
     loaded := loaded s ++ [{| p_run := key; p_ms := cur_of s (m_rid m) ++ [m] |}]; crashed := false |}.
Proof.
  intros s m key Hc Hn Ht Hi. unfold load_line. rewrite Hc, Hn. fold (cur_of s (m_rid m)).
  destruct (cur_of s (m_rid m)) as [|m0 r] eqn:E; rewrite Ht; [reflexivity|].
  inversion Hi; subst. rewrite H1, Nat.eqb_refl. reflexivity.
Qed.

(* a data point as the harness delivers it: measurements, the total last and only there *)
Definition dp_ok (d : newdp) : Prop :=
  exists pre it v, n_ms d = pre ++ [(it, true, v)] /\ Forall (fun x => snd (fst x) = false) pre.

Lemma load_nontotals : forall d rid key pre s,
  crashed s = false -> nth_error (runs s) rid = Some key ->
  Forall (fun x => snd (fst x) = false) pre ->
  Forall (fun m0 => m_inv m0 = n_inv d) (cur_of s rid) ->
  let s' := fold_left load_line (map (fun x => LData (mk_meas d rid x)) pre) s in
  crashed s' = false /\ runs s' = runs s /\ benches s' = benches s /\ loaded s' = loaded s /\
  cur_of s' rid = cur_of s rid ++ map (mk_meas d rid) pre.
Proof.
  induction pre as [|x pre IH]; intros s Hc Hn Hp Hi; simpl.
  - rewrite app_nil_r. auto.
  - inversion Hp; subst.
    rewrite (load_line_data_nontotal s (mk_meas d rid x) key); auto.
    change (m_rid (mk_meas d rid x)) with rid.
    set (s1 := with_open s (Some (rid, cur_of s rid ++ [mk_meas d rid x]))).
    assert (C1 : cur_of s1 rid = cur_of s rid ++ [mk_meas d rid x]).
    { unfold cur_of at 1. simpl. rewrite Nat.eqb_refl. reflexivity. }
    destruct (IH s1) as [A [B [C [D E]]]]; auto.
    + rewrite C1. apply Forall_app; split; [exact Hi | repeat constructor].
    + repeat split; auto. rewrite E, C1, <- app_assoc. reflexivity.
Qed.

Lemma load_dp_lines : forall d rid key s,
  dp_ok d -> crashed s = false -> nth_error (runs s) rid = Some key -> cur_of s rid = [] ->
  let s' := fold_left load_line (map (fun x => LData (mk_meas d rid x)) (n_ms d)) s in
  crashed s' = false /\ runs s' = runs s /\ benches s' = benches s /\
  loaded s' = loaded s ++ [{| p_run := key; p_ms := map (mk_meas d rid) (n_ms d) |}] /\ clean s'.
Proof.
  intros d rid key s [pre [it [v [E Hp]]]] Hc Hn Hcur. rewrite E. rewrite map_app, fold_left_app. simpl.
  destruct (load_nontotals d rid key pre s) as [A [B [C [D F]]]]; auto.
  { rewrite Hcur. constructor. }
  set (s1 := fold_left load_line (map (fun x => LData (mk_meas d rid x)) pre) s) in *.
  rewrite (load_line_data_total s1 (mk_meas d rid (it, true, v)) key); auto.
  - change (m_rid (mk_meas d rid (it, true, v))) with rid. simpl. repeat split; auto.
    + rewrite D, F, Hcur, map_app. reflexivity.
    + intros r. unfold cur_of. simpl. destruct (Nat.eqb rid r); reflexivity.
  - simpl. rewrite B. exact Hn.
  - simpl. rewrite F, Hcur. simpl. apply Forall_forall. intros m Hm. apply in_map_iff in Hm.
    destruct Hm as [x [Ex _]]. subst. reflexivity.
Qed.

Lemma index_of_nth : forall k l i j, index_of k l i = Some j -> i <= j /\ nth_error l (j - i) = Some k.
Proof.
  induction l as [|x r IH]; intros i j H; simpl in H; [discriminate|].
  destruct (Nat.eqb_spec x k).
  - inversion H; subst. split; [lia|]. rewrite Nat.sub_diag. reflexivity.
  - apply IH in H. destruct H as [H1 H2]. split; [lia|].
    replace (j - i) with (S (j - S i)) by lia. exact H2.
Qed.
Lemma index_of_none : forall k l i, index_of k l i = None -> existsb (Nat.eqb k) l = false.
Proof.
  induction l as [|x r IH]; intros i H; simpl in *; [reflexivity|].
  destruct (Nat.eqb_spec x k); [discriminate|]. destruct (Nat.eqb_spec k x); [congruence|]. simpl. eapply IH; eassumption.
Qed.
Lemma nth_error_lt : forall (l : list nat) i k, nth_error l i = Some k -> i < length l.
Proof. intros l i k H. apply nth_error_Some. congruence. Qed.

Lemma load_comment_clean : forall s, crashed s = false ->
  load_line s LComment = with_open s None.
Proof. intros s H. unfold load_line. rewrite H. reflexivity. Qed.

Lemma load_meta_block : forall s, crashed s = false -> fold_left load_line meta_block s = with_open s None.
Proof. intros s H. destruct s; simpl in *; subst; reflexivity. Qed.

(* the state right after the meta block / before the records of a data point *)
Lemma load_open_block : forall (e opened : bool) s,
  crashed s = false -> (opened = true -> clean s) ->
  let open := if opened then [] else meta_block ++ (if e then [LHeader] else []) in
  let s' := fold_left load_line open s in
  crashed s' = false /\ runs s' = runs s /\ benches s' = benches s /\ loaded s' = loaded s /\ clean s'.
Proof.
  intros e opened s Hc Hcl open s'. subst open s'. destruct opened.
  - simpl. repeat split; auto.
  - rewrite fold_left_app, load_meta_block by exact Hc.
    assert (Hw : clean (with_open s None)) by (intro r; reflexivity).
    destruct e; simpl.
    + unfold load_line. simpl. rewrite Hc. repeat split; auto.
    + repeat split; auto.
Qed.

Definition dp_view (dp : dpoint) : nat * list (nat * nat * bool * Z) :=
  (p_run dp, map (fun m => (m_inv m, m_it m, m_total m, m_val m)) (p_ms dp)).
Definition nd_view (d : newdp) : nat * list (nat * nat * bool * Z) :=
  (n_run d, map (fun x => (n_inv d, fst (fst x), snd (fst x), snd x)) (n_ms d)).

Lemma view_mk : forall d rid,
  dp_view {| p_run := n_run d; p_ms := map (mk_meas d rid) (n_ms d) |} = nd_view d.
Proof. intros. unfold dp_view, nd_view. simpl. rewrite map_map. reflexivity. Qed.

(** one data point: the lines written for it are loaded as exactly that data point, for its run *)
Lemma load_dp_chunk : forall e w d s,
  dp_ok d -> crashed s = false -> benches s = w_benches w -> runs s = w_runs w ->
  (w_opened w = true -> clean s) ->
  let r := dp_lines e w d in
  let s' := fold_left load_line (fst r) s in
  crashed s' = false /\ benches s' = fst (snd r) /\ runs s' = snd (snd r) /\ clean s' /\
  exists dp, loaded s' = loaded s ++ [dp] /\ dp_view dp = nd_view d.
Proof.
  intros e w d s Hok Hc Hb Hr Hcl. unfold dp_lines.
  set (open := if w_opened w then [] else meta_block ++ (if e then [LHeader] else [])).
  destruct (load_open_block e (w_opened w) s Hc Hcl) as [C0 [R0 [B0 [L0 K0]]]].
  fold open in C0, R0, B0, L0, K0. set (s0 := fold_left load_line open s) in *.
  destruct (index_of (n_run d) (w_runs w) 0) as [rid|] eqn:Er.
  - (* the run is already described in the file *)
    simpl. rewrite fold_left_app. fold s0.
    apply index_of_nth in Er. destruct Er as [_ Er]. rewrite Nat.sub_0_r in Er.
    destruct (load_dp_lines d rid (n_run d) s0) as [A [B [C [D F]]]]; auto.
    { rewrite R0, Hr. exact Er. }
    repeat split; auto; try congruence.
    eexists. split; [rewrite D, L0; reflexivity | apply view_mk].
  - destruct (index_of (n_bench d) (w_benches w) 0) as [bid|] eqn:Eb.
    + (* new run of a described benchmark *)
      simpl. rewrite fold_left_app. fold s0. simpl.
      apply index_of_nth in Eb. destruct Eb as [_ Eb]. rewrite Nat.sub_0_r in Eb.
      assert (Hlt : bid < length (benches s0)) by (rewrite B0, Hb; eapply nth_error_lt; eassumption).
      assert (S1 : load_line s0 (LRun (length (w_runs w)) bid (n_run d)) =
                   {| benches := benches s0; runs := runs s0 ++ [n_run d]; open_dp := None; loaded := loaded s0; crashed := false |}).
      { unfold load_line. rewrite C0. destruct (Nat.leb_spec (length (benches s0)) bid); [lia|].
        rewrite R0, Hr, Nat.eqb_refl. reflexivity. }
      rewrite S1. set (s1 := {| benches := benches s0; runs := runs s0 ++ [n_run d]; open_dp := None; loaded := loaded s0; crashed := false |}).
      destruct (load_dp_lines d (length (w_runs w)) (n_run d) s1) as [A [B [C [D F]]]]; auto.
      { simpl. rewrite R0, Hr. rewrite nth_error_app2 by lia. rewrite Nat.sub_diag. reflexivity. }
      repeat split; auto.
      * rewrite C. simpl. congruence.
      * rewrite B. simpl. congruence.
      * eexists. split; [rewrite D; simpl; rewrite L0; reflexivity | apply view_mk].
    + (* new run of a new benchmark *)
      simpl. rewrite fold_left_app. fold s0. simpl.
      apply index_of_none in Eb.
      assert (S1 : load_line s0 (LBench (length (w_benches w)) (n_bench d)) =
                   {| benches := benches s0 ++ [n_bench d]; runs := runs s0; open_dp := None; loaded := loaded s0; crashed := false |}).
      { unfold load_line. rewrite C0, B0, Hb, Eb, Nat.eqb_refl. reflexivity. }
      rewrite S1. set (s1 := {| benches := benches s0 ++ [n_bench d]; runs := runs s0; open_dp := None; loaded := loaded s0; crashed := false |}).
      assert (S2 : load_line s1 (LRun (length (w_runs w)) (length (w_benches w)) (n_run d)) =
                   {| benches := benches s1; runs := runs s1 ++ [n_run d]; open_dp := None; loaded := loaded s1; crashed := false |}).
      { unfold load_line. simpl. rewrite app_length, B0, Hb. simpl.
        destruct (Nat.leb_spec (length (w_benches w) + 1) (length (w_benches w))); [lia|].
        rewrite R0, Hr, Nat.eqb_refl. reflexivity. }
      rewrite S2. set (s2 := {| benches := benches s1; runs := runs s1 ++ [n_run d]; open_dp := None; loaded := loaded s1; crashed := false |}).
      destruct (load_dp_lines d (length (w_runs w)) (n_run d) s2) as [A [B [C [D F]]]]; auto.
      { simpl. rewrite R0, Hr. rewrite nth_error_app2 by lia. rewrite Nat.sub_diag. reflexivity. }
      repeat split; auto.
      * rewrite C. simpl. congruence.
      * rewrite B. simpl. congruence.
      * eexists. split; [rewrite D; simpl; rewrite L0; reflexivity | apply view_mk].
Qed.

Lemma write_dp_out : forall e w d, w_out (write_dp e w d) = w_out w ++ fst (dp_lines e w d).
Proof. reflexivity. Qed.

(** a whole session: started from any loader state that agrees with the writer's tables *)
Lemma load_session : forall e dps w s,
  Forall dp_ok dps -> crashed s = false -> benches s = w_benches w -> runs s = w_runs w ->
  (w_opened w = true -> clean s) ->
  let w' := fold_left (write_dp e) dps w in
  exists rest, w_out w' = w_out w ++ rest /\
    let s' := fold_left load_line rest s in
    crashed s' = false /\ benches s' = w_benches w' /\ runs s' = w_runs w' /\
    exists new, loaded s' = loaded s ++ new /\ map dp_view new = map nd_view dps.
Proof.
  induction dps as [|d dps IH]; intros w s Hok Hc Hb Hr Hcl; simpl.
  - exists []. rewrite app_nil_r. split; [reflexivity|]. simpl. repeat split; auto.
    exists []. rewrite app_nil_r. split; reflexivity.
  - inversion Hok; subst.
    destruct (load_dp_chunk e w d s) as [C1 [B1 [R1 [K1 [dp [L1 V1]]]]]]; auto.
    set (s1 := fold_left load_line (fst (dp_lines e w d)) s) in *.
    destruct (IH (write_dp e w d) s1) as [rest [Ho [C2 [B2 [R2 [new [L2 V2]]]]]]]; auto.
    exists (fst (dp_lines e w d) ++ rest). split.
    + rewrite Ho, write_dp_out, app_assoc. reflexivity.
    + rewrite fold_left_app. fold s1. repeat split; auto.
      exists (dp :: new). split.
      * rewrite L2, L1, <- app_assoc. reflexivity.
      * simpl. rewrite V1, V2. reflexivity.
Qed.

Lemma load_app : forall a b, load (a ++ b) = fold_left load_line b (load a).
Proof. intros. unfold load. apply fold_left_app. Qed.

(** Everything a session appends to a loadable file is loaded back by the next session exactly
    once, in order, for the right run; the file stays loadable; records keep consecutive ids
    (a record whose id is not the next one makes the loader fail, which it does not). *)
Theorem session_roundtrip : forall file dps,
  crashed (load file) = false -> Forall dp_ok dps ->
  let f' := file ++ session_lines file dps in
  crashed (load f') = false /\
  exists new, loaded (load f') = loaded (load file) ++ new /\ map dp_view new = map nd_view dps.
Proof.
  intros file dps Hc Hok. unfold session_lines.
  set (w0 := {| w_benches := benches (load file); w_runs := runs (load file); w_opened := false; w_out := [] |}).
  destruct (load_session (match file with [] => true | _ => false end) dps w0 (load file)) as [rest [Ho [C [B [R [new [L V]]]]]]]; auto.
  { intro H; discriminate. }
  simpl in Ho. rewrite Ho. rewrite load_app. split; [exact C|]. exists new. split; assumption.
Qed.

(** the loaded run table after the session is the writer's: ids are positions *)
Theorem session_ids : forall file dps,
  crashed (load file) = false -> Forall dp_ok dps ->
  exists extra_b extra_r,
    benches (load (file ++ session_lines file dps)) = benches (load file) ++ extra_b /\
    runs (load (file ++ session_lines file dps)) = runs (load file) ++ extra_r.
Proof.
  intros file dps Hc Hok.
  assert (G : forall e dps w, exists xb xr,
            w_benches (fold_left (write_dp e) dps w) = w_benches w ++ xb /\
            w_runs (fold_left (write_dp e) dps w) = w_runs w ++ xr).
  { induction dps0 as [|d ds IH]; intros w; simpl.
    - exists [], []. rewrite !app_nil_r. split; reflexivity.
    - destruct (IH (write_dp e w d)) as [xb [xr [Hb Hr]]]. rewrite Hb, Hr. unfold write_dp, dp_lines. simpl.
      destruct (index_of (n_run d) (w_runs w) 0); simpl.
      + exists xb, xr. split; reflexivity.
      + destruct (index_of (n_bench d) (w_benches w) 0); simpl.
        * exists xb, ([n_run d] ++ xr). rewrite app_assoc. split; reflexivity.
        * exists ([n_bench d] ++ xb), ([n_run d] ++ xr). rewrite !app_assoc. split; reflexivity. }
  unfold session_lines.
  set (e := match file with [] => true | _ => false end).
  set (w0 := {| w_benches := benches (load file); w_runs := runs (load file); w_opened := false; w_out := [] |}).
  destruct (load_session e dps w0 (load file)) as [rest [Ho [C [B [R _]]]]]; auto.
  { intro H; discriminate. }
  simpl in Ho. rewrite Ho, load_app, B, R.
  destruct (G e dps w0) as [xb [xr [Hb Hr]]]. exists xb, xr. rewrite Hb, Hr. split; reflexivity.
Qed.

(** what is appended starts with the meta block, has the header iff the file was empty, and
    earlier lines are a prefix of the new file (by construction: append only) *)
Lemma data_lines_no_header : forall d rid, ~ In LHeader (map (fun x => LData (mk_meas d rid x)) (n_ms d)).
Proof. intros d rid H. apply in_map_iff in H. destruct H as [y [E _]]. discriminate. Qed.

Lemma dp_lines_body : forall e w d, exists body,
  fst (dp_lines e w d) = (if w_opened w then [] else meta_block ++ (if e then [LHeader] else [])) ++ body
  /\ ~ In LHeader body.
Proof.
  intros. unfold dp_lines.
  destruct (index_of (n_run d) (w_runs w) 0); [|destruct (index_of (n_bench d) (w_benches w) 0)];
    simpl fst; eexists; (split; [reflexivity|]).
  - apply data_lines_no_header.
  - intros [H|H]; [discriminate | exact (data_lines_no_header _ _ H)].
  - intros [H|[H|H]]; [discriminate | discriminate | exact (data_lines_no_header _ _ H)].
Qed.

Lemma session_lines_shape : forall file d dps,
  exists rest, session_lines file (d :: dps) =
    meta_block ++ (match file with [] => [LHeader] | _ => [] end) ++ rest /\ ~ In LHeader rest.
Proof.
  intros file d dps. unfold session_lines.
  set (e := match file with [] => true | _ => false end).
  set (w0 := {| w_benches := benches (load file); w_runs := runs (load file); w_opened := false; w_out := [] |}).
  assert (G : forall dps w, w_opened w = true ->
            exists r, w_out (fold_left (write_dp e) dps w) = w_out w ++ r /\ ~ In LHeader r).
  { induction dps0 as [|x xs IH]; intros w Ho; simpl.
    - exists []. rewrite app_nil_r. split; [reflexivity | intros []].
    - destruct (IH (write_dp e w x) eq_refl) as [r [Hr Hn]]. rewrite Hr, write_dp_out.
      destruct (dp_lines_body e w x) as [body [Eb Nb]]. rewrite Ho in Eb. simpl in Eb. rewrite Eb.
      exists (body ++ r). rewrite app_assoc. split; [reflexivity|].
      intro Hin. apply in_app_or in Hin. destruct Hin; contradiction. }
  simpl fold_left. destruct (G dps (write_dp e w0 d) eq_refl) as [r [Hr Hn]].
  rewrite Hr, write_dp_out. simpl w_out.
  destruct (dp_lines_body e w0 d) as [body [Eb Nb]]. simpl w_opened in Eb. cbv iota in Eb. rewrite Eb.
  assert (He : (if e then [LHeader] else []) = match file with [] => [LHeader] | _ => [] end)
    by (unfold e; destruct file; reflexivity).
  rewrite He. exists (body ++ r). rewrite <- !app_assoc. split; [reflexivity|].
  intro Hin. apply in_app_or in Hin. destruct Hin; contradiction.
Qed.

(** ** -r *)
Definition is_meta (l : line) : bool :=
  match l with LData _ => false | _ => true end.

Lemma rewrite_keeps_meta : forall sel f rs, filter is_meta (rewrite_from sel rs f) = filter is_meta f.
Proof.
  induction f as [|l f IH]; intros rs; [reflexivity|]. simpl.
  destruct l; simpl; try (rewrite IH; reflexivity).
  destruct (nth_error rs (m_rid m)) as [rk|]; [destruct (sel rk)|]; simpl; apply IH.
Qed.

Lemma rewrite_nothing_selected : forall f rs,
  rewrite_from (fun _ => false) rs f = f.
Proof.
  induction f as [|l f IH]; intros rs; [reflexivity|]. simpl.
  destruct l; try (rewrite IH; reflexivity).
  destruct (nth_error rs (m_rid m)); rewrite IH; reflexivity.
Qed.

(* the measurement lines that remain are those of runs not selected, in order *)
Fixpoint data_keys (rs : list nat) (f : list line) : list (option nat * meas) :=
  match f with
  | [] => []
  | LData m :: r => (nth_error rs (m_rid m), m) :: data_keys rs r
  | LRun _ _ key :: r => data_keys (rs ++ [key]) r
  | _ :: r => data_keys rs r
  end.

Lemma rewrite_data : forall sel f rs,
  data_keys rs (rewrite_from sel rs f) =
  filter (fun km => match fst km with Some rk => negb (sel rk) | None => true end) (data_keys rs f).
Proof.
  induction f as [|l f IH]; intros rs; [reflexivity|]. simpl.
  destruct l; simpl; try apply IH.
  destruct (nth_error rs (m_rid m)) as [rk|] eqn:E; simpl.
  - destruct (sel rk); simpl; [apply IH | rewrite E, IH; reflexivity].
  - rewrite E, IH. reflexivity.
Qed.

(** ** the replacement of the data file is atomic *)
Theorem rewrite_atomic : forall old new k,
  data_f (crash_after old new k) = old \/ data_f (crash_after old new k) = new.
Proof.
  intros old new k. unfold crash_after, rewrite_steps.
  destruct k as [|[|[|[|k]]]]; simpl; auto.
  destruct k; simpl; auto.
Qed.
Theorem rewrite_completes : forall old new, data_f (crash_after old new 4) = new.
Proof. reflexivity. Qed.

(** ** a crash while a session appends *)
Fixpoint chunks (e : bool) (dps : list newdp) (w : wstate) : list (list line) :=
  match dps with
  | [] => []
  | d :: r => fst (dp_lines e w d) :: chunks e r (write_dp e w d)
  end.

Lemma out_chunks : forall e dps w, w_out (fold_left (write_dp e) dps w) = w_out w ++ concat (chunks e dps w).
Proof.
  induction dps as [|d r IH]; intros w; simpl; [rewrite app_nil_r; reflexivity|].
  rewrite IH, write_dp_out, app_assoc. reflexivity.
Qed.

Lemma firstn_snoc_lt : forall (A : Type) (l : list A) x n, n <= length l -> firstn n (l ++ [x]) = firstn n l.
Proof.
  intros A l x n H. rewrite firstn_app. replace (n - length l) with 0 by lia. simpl. apply app_nil_r.
Qed.

Lemma load_comments_safe : forall l s,
  Forall (fun x => x = LComment \/ x = LHeader) l -> crashed s = false ->
  let s' := fold_left load_line l s in
  crashed s' = false /\ runs s' = runs s /\ benches s' = benches s /\ loaded s' = loaded s.
Proof.
  induction l as [|x l IH]; intros s H Hc; simpl; [auto|]. inversion H as [|? ? Hx Hl]; subst.
  assert (S1 : crashed (load_line s x) = false /\ runs (load_line s x) = runs s /\
               benches (load_line s x) = benches s /\ loaded (load_line s x) = loaded s).
  { destruct Hx; subst; unfold load_line; rewrite Hc; simpl; repeat split; auto. }
  destruct S1 as [A [B [C D]]]. destruct (IH (load_line s x) Hl A) as [A' [B' [C' D']]].
  repeat split; congruence.
Qed.

Lemma firstn_Forall : forall (A : Type) (P : A -> Prop) n l, Forall P l -> Forall P (firstn n l).
Proof.
  intros A P n l H. apply Forall_forall. intros x Hx. rewrite Forall_forall in H. apply H.
  eapply (firstn_all2 (n := length l)) in Hx || idtac.
  clear -Hx. revert n Hx. induction l as [|y l IH]; intros [|n] Hx; simpl in *; try contradiction.
  destruct Hx as [Hx|Hx]; [left; exact Hx | right; eapply IH; exact Hx].
Qed.

(* a proper prefix of the lines of one data point: nothing is loaded, nothing fails *)
Lemma load_chunk_prefix : forall e w d s n,
  dp_ok d -> crashed s = false -> benches s = w_benches w -> runs s = w_runs w ->
  (w_opened w = true -> clean s) ->
  n < length (fst (dp_lines e w d)) ->
  let s' := fold_left load_line (firstn n (fst (dp_lines e w d))) s in
  crashed s' = false /\ loaded s' = loaded s.
Proof.
  intros e w d s n Hok Hc Hb Hr Hcl Hn.
  destruct Hok as [pre [it [v [Ems Hpre]]]].
  unfold dp_lines in *.
  set (open := if w_opened w then [] else meta_block ++ (if e then [LHeader] else [])) in *.
  assert (Hopen : Forall (fun x => x = LComment \/ x = LHeader) open).
  { unfold open. destruct (w_opened w); [constructor|]. unfold meta_block.
    destruct e; simpl; repeat (apply Forall_cons; [first [left; reflexivity | right; reflexivity]|]); constructor. }
  destruct (load_open_block e (w_opened w) s Hc Hcl) as [C0 [R0 [B0 [L0 K0]]]].
  fold open in C0, R0, B0, L0, K0. set (s0 := fold_left load_line open s) in *.
  (* a prefix that ends inside the opening block *)
  assert (Hin_open : n <= length open ->
          crashed (fold_left load_line (firstn n open) s) = false /\
          loaded (fold_left load_line (firstn n open) s) = loaded s).
  { intros _. destruct (load_comments_safe (firstn n open) s) as [A [_ [_ D]]]; auto. apply firstn_Forall. exact Hopen. }
  (* the measurement lines without the total, from a state that knows the run *)
  assert (Hdata : forall rid s2 m, crashed s2 = false -> nth_error (runs s2) rid = Some (n_run d) -> cur_of s2 rid = [] ->
          m <= length pre ->
          crashed (fold_left load_line (firstn m (map (fun x => LData (mk_meas d rid x)) (n_ms d))) s2) = false /\
          loaded (fold_left load_line (firstn m (map (fun x => LData (mk_meas d rid x)) (n_ms d))) s2) = loaded s2).
  { intros rid s2 m C2 N2 K2 Hm. rewrite Ems, map_app. cbn [map].
    rewrite firstn_snoc_lt by (rewrite map_length; exact Hm). rewrite firstn_map.
    assert (P1 : Forall (fun x => snd (fst x) = false) (firstn m pre)) by (apply firstn_Forall; exact Hpre).
    assert (P2 : Forall (fun m0 => m_inv m0 = n_inv d) (cur_of s2 rid)) by (rewrite K2; constructor).
    destruct (load_nontotals d rid (n_run d) (firstn m pre) s2 C2 N2 P1 P2) as [A [_ [_ [D _]]]].
    split; assumption. }
  assert (Lms : length (n_ms d) = S (length pre)) by (rewrite Ems, app_length; simpl; lia).
  destruct (index_of (n_run d) (w_runs w) 0) as [rid|] eqn:Er; simpl fst in *.
  - rewrite firstn_app, fold_left_app.
    destruct (Nat.le_gt_cases n (length open)) as [Hle|Hgt].
    + replace (n - length open) with 0 by lia. simpl. apply Hin_open. exact Hle.
    + rewrite (firstn_all2 open) by lia. fold s0.
      apply index_of_nth in Er. destruct Er as [_ Er]. rewrite Nat.sub_0_r in Er.
      rewrite app_length, map_length in Hn.
      destruct (Hdata rid s0 (n - length open)) as [A D]; auto; try lia.
      { rewrite R0, Hr. exact Er. }
      split; [exact A | rewrite D; exact L0].
  - destruct (index_of (n_bench d) (w_benches w) 0) as [bid|] eqn:Eb; simpl fst in *.
    + rewrite firstn_app, fold_left_app.
      destruct (Nat.le_gt_cases n (length open)) as [Hle|Hgt].
      * replace (n - length open) with 0 by lia. simpl. apply Hin_open. exact Hle.
      * rewrite (firstn_all2 open) by lia. fold s0.
        apply index_of_nth in Eb. destruct Eb as [_ Eb]. rewrite Nat.sub_0_r in Eb.
        assert (Hlt : bid < length (benches s0)) by (rewrite B0, Hb; eapply nth_error_lt; eassumption).
        destruct (n - length open) as [|m] eqn:En; [lia|]. simpl.
        assert (S1 : load_line s0 (LRun (length (w_runs w)) bid (n_run d)) =
                     {| benches := benches s0; runs := runs s0 ++ [n_run d]; open_dp := None; loaded := loaded s0; crashed := false |}).
        { unfold load_line. rewrite C0. destruct (Nat.leb_spec (length (benches s0)) bid); [lia|].
          rewrite R0, Hr, Nat.eqb_refl. reflexivity. }
        rewrite S1. rewrite app_length in Hn. simpl in Hn. rewrite map_length in Hn.
        match goal with |- context [fold_left load_line _ ?st] => set (s1 := st) end.
        destruct (Hdata (length (w_runs w)) s1 m) as [A D]; auto; try lia.
        { simpl. rewrite R0, Hr. rewrite nth_error_app2 by lia. rewrite Nat.sub_diag. reflexivity. }
        split; [exact A | rewrite D; simpl; exact L0].
    + rewrite firstn_app, fold_left_app.
      destruct (Nat.le_gt_cases n (length open)) as [Hle|Hgt].
      * replace (n - length open) with 0 by lia. simpl. apply Hin_open. exact Hle.
      * rewrite (firstn_all2 open) by lia. fold s0.
        apply index_of_none in Eb.
        assert (S1 : load_line s0 (LBench (length (w_benches w)) (n_bench d)) =
                     {| benches := benches s0 ++ [n_bench d]; runs := runs s0; open_dp := None; loaded := loaded s0; crashed := false |}).
        { unfold load_line. rewrite C0, B0, Hb, Eb, Nat.eqb_refl. reflexivity. }
        destruct (n - length open) as [|m] eqn:En; [lia|]. simpl. rewrite S1.
        match goal with |- context [fold_left load_line _ ?st] => set (s1 := st) end.
        destruct m as [|m]; [simpl; split; [reflexivity | exact L0]|]. simpl.
        assert (S2 : load_line s1 (LRun (length (w_runs w)) (length (w_benches w)) (n_run d)) =
                     {| benches := benches s1; runs := runs s1 ++ [n_run d]; open_dp := None; loaded := loaded s1; crashed := false |}).
        { unfold load_line. simpl. rewrite app_length, B0, Hb. simpl.
          destruct (Nat.leb_spec (length (w_benches w) + 1) (length (w_benches w))); [lia|].
          rewrite R0, Hr, Nat.eqb_refl. reflexivity. }
        rewrite S2. rewrite app_length in Hn. simpl in Hn. rewrite map_length in Hn.
        match goal with |- context [fold_left load_line _ ?st] => set (s2 := st) end.
        destruct (Hdata (length (w_runs w)) s2 m) as [A D]; auto; try lia.
        { simpl. rewrite R0, Hr. rewrite nth_error_app2 by lia. rewrite Nat.sub_diag. reflexivity. }
        split; [exact A | rewrite D; simpl; exact L0].
Qed.

(** any prefix of what a session appends: the data points whose lines arrived completely are
    loaded, each once and whole; the rest of the prefix contributes nothing and breaks nothing *)
Lemma load_torn_chunks : forall e dps w s k,
  Forall dp_ok dps -> crashed s = false -> benches s = w_benches w -> runs s = w_runs w ->
  (w_opened w = true -> clean s) ->
  let s' := fold_left load_line (firstn k (concat (chunks e dps w))) s in
  crashed s' = false /\
  exists j new,
    j <= length dps /\
    length (concat (firstn j (chunks e dps w))) <= k /\
    (j < length dps -> k < length (concat (firstn (S j) (chunks e dps w)))) /\
    loaded s' = loaded s ++ new /\ map dp_view new = map nd_view (firstn j dps).
Proof.
  induction dps as [|d dps IH]; intros w s k Hok Hc Hb Hr Hcl.
  - simpl. rewrite firstn_nil. simpl. split; [exact Hc|]. exists 0, []. simpl. rewrite app_nil_r.
    repeat split; auto; lia.
  - inversion Hok; subst. simpl chunks. simpl concat.
    set (ch := fst (dp_lines e w d)).
    destruct (Nat.lt_ge_cases k (length ch)) as [Hlt|Hge].
    + rewrite firstn_app. replace (k - length ch) with 0 by lia. simpl firstn. rewrite app_nil_r.
      destruct (load_chunk_prefix e w d s k) as [A D]; auto.
      split; [exact A|]. exists 0, [].
      split; [lia|]. split; [simpl; lia|].
      split; [intros _; simpl; rewrite app_nil_r; fold ch; exact Hlt|].
      split; [rewrite app_nil_r; exact D | reflexivity].
    + rewrite firstn_app, fold_left_app. rewrite (firstn_all2 ch) by lia.
      destruct (load_dp_chunk e w d s) as [C1 [B1 [R1 [K1 [dp [L1 V1]]]]]]; auto.
      fold ch in C1, B1, R1, K1, L1. set (s1 := fold_left load_line ch s) in *.
      destruct (IH (write_dp e w d) s1 (k - length ch)) as [A [j [new [Hj [Hlen [Hnext [L V]]]]]]]; auto.
      split; [exact A|]. exists (S j), (dp :: new). simpl. repeat split.
      * lia.
      * rewrite app_length. fold ch. lia.
      * intros Hjl. rewrite app_length. fold ch.
        assert (Hj2 : j < length dps) by lia. specialize (Hnext Hj2). simpl in Hnext. lia.
      * rewrite L, L1, <- app_assoc. reflexivity.
      * rewrite V1, V. reflexivity.
Qed.

Lemma load_partial_noop : forall s, load_line s LPartial = s.
Proof. intros s. unfold load_line. destruct (crashed s); reflexivity. Qed.

Lemma session_lines_chunks : forall file dps,
  session_lines file dps =
  concat (chunks (match file with [] => true | _ => false end) dps
            {| w_benches := benches (load file); w_runs := runs (load file); w_opened := false; w_out := [] |}).
Proof. intros. unfold session_lines. rewrite out_chunks. reflexivity. Qed.

Lemma chunks_firstn : forall e dps w j, chunks e (firstn j dps) w = firstn j (chunks e dps w).
Proof.
  induction dps as [|d r IH]; intros w [|j]; simpl; try reflexivity. rewrite IH. reflexivity.
Qed.

(** C09, the file right after the crash: it loads, and exactly the completely written data points
    are there *)
Theorem torn_load : forall file dps k g,
  crashed (load file) = false -> Forall dp_ok dps ->
  let app := session_lines file dps in
  let t := torn_now file app k g in
  crashed (load t) = false /\
  exists j new,
    j <= length dps /\
    loaded (load t) = loaded (load file) ++ new /\ map dp_view new = map nd_view (firstn j dps) /\
    length (session_lines file (firstn j dps)) <= k /\
    (j < length dps -> k < length (session_lines file (firstn (S j) dps))).
Proof.
  intros file dps k g Hc Hok app t. unfold t, torn_now, app.
  set (e := match file with [] => true | _ => false end).
  set (w0 := {| w_benches := benches (load file); w_runs := runs (load file); w_opened := false; w_out := [] |}).
  rewrite session_lines_chunks. fold e w0.
  destruct (load_torn_chunks e dps w0 (load file) k) as [A [j [new [Hj [Hlen [Hnext [L V]]]]]]]; auto.
  { intro H; discriminate. }
  assert (Hpre : forall j, session_lines file (firstn j dps) = concat (firstn j (chunks e dps w0))).
  { intros j0. rewrite session_lines_chunks. fold e w0. rewrite chunks_firstn. reflexivity. }
  assert (Hload : load (file ++ firstn k (concat (chunks e dps w0)) ++ match g with GNone => [] | _ => [LPartial] end) =
                  fold_left load_line (firstn k (concat (chunks e dps w0))) (load file)).
  { rewrite app_assoc, load_app. rewrite load_app. destruct g; simpl; try apply load_partial_noop; reflexivity. }
  rewrite Hload. split; [exact A|]. exists j, new. rewrite !Hpre. repeat split; auto.
Qed.

(** C09, after the next session recorded [dps2] behind the torn tail (its first line glued to the
    partial one): the file loads, the data points of before the crash are as they were, those of
    the new session are exactly [dps2] - nothing is mixed, lost or counted twice *)
Theorem torn_then_resumed : forall file dps k g dps2,
  crashed (load file) = false -> Forall dp_ok dps -> Forall dp_ok dps2 -> dps2 <> [] -> g <> GNone ->
  let app := session_lines file dps in
  let t1 := torn_now file app k g in
  let t2 := torn_then file app k g (session_lines t1 dps2) in
  crashed (load t2) = false /\
  exists new2, loaded (load t2) = loaded (load t1) ++ new2 /\ map dp_view new2 = map nd_view dps2.
Proof.
  intros file dps k g dps2 Hc Hok Hok2 Hne Hg app t1 t2.
  destruct (torn_load file dps k g Hc Hok) as [C1 _]. fold app t1 in C1.
  set (T := file ++ firstn k app).
  assert (Ht1 : load t1 = load T).
  { unfold t1, torn_now, T. rewrite app_assoc, load_app. destruct g; simpl; try apply load_partial_noop. contradiction. }
  assert (CT : crashed (load T) = false) by (rewrite <- Ht1; exact C1).
  destruct dps2 as [|d2 r2]; [contradiction|].
  set (e2 := match t1 with [] => true | _ => false end).
  set (w0 := {| w_benches := benches (load t1); w_runs := runs (load t1); w_opened := false; w_out := [] |}).
  assert (Hs : session_lines t1 (d2 :: r2) = concat (chunks e2 (d2 :: r2) w0)) by apply session_lines_chunks.
  (* the first chunk starts with the meta block; its first line is absorbed by the partial line *)
  destruct (dp_lines_body e2 w0 d2) as [body [Eb _]]. simpl w_opened in Eb. cbv iota in Eb.
  simpl chunks in Hs. simpl concat in Hs. rewrite Eb in Hs.
  unfold t2, torn_then. fold T.
  assert (Hg' : match g with GNone => session_lines t1 (d2 :: r2) | _ => glue_line g ++ tl (session_lines t1 (d2 :: r2)) end
                = glue_line g ++ tl (session_lines t1 (d2 :: r2))) by (destruct g; try reflexivity; contradiction).
  replace (file ++ firstn k app ++ match g with GNone => session_lines t1 (d2 :: r2) | _ => glue_line g ++ tl (session_lines t1 (d2 :: r2)) end)
    with (T ++ glue_line g ++ tl (session_lines t1 (d2 :: r2))) by (rewrite Hg'; unfold T; rewrite <- app_assoc; reflexivity).
  (* loading "glued line + rest of the meta block" = loading the meta block *)
  assert (Hmeta : forall s rest, crashed s = false ->
            fold_left load_line (glue_line g ++ tl (meta_block ++ rest)) s = fold_left load_line (meta_block ++ rest) s).
  { intros s rest Hcs. unfold meta_block. destruct s; simpl in Hcs; subst. destruct g; try contradiction; reflexivity. }
  rewrite load_app, Hs. rewrite <- !app_assoc. rewrite Hmeta by exact CT.
  (* now it is an ordinary session appended to T, with the writer's tables taken from t1 *)
  destruct (load_session e2 (d2 :: r2) w0 (load T)) as [rest [Ho [C [B [R [new [L V]]]]]]]; auto.
  { unfold w0. simpl. rewrite Ht1. reflexivity. }
  { unfold w0. simpl. rewrite Ht1. reflexivity. }
  { intro H; discriminate. }
  rewrite out_chunks in Ho. simpl w_out in Ho. simpl in Ho. rewrite Eb in Ho.
  rewrite <- !app_assoc in Ho. rewrite <- Ho in C, L.
  split; [exact C|]. exists new. rewrite Ht1. split; assumption.
Qed.
