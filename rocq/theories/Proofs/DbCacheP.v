(** Proofs about M-DbCache: conservation of data points between cache and acknowledged requests,
    at-most-once / exactly-once delivery, retention on failure, and the API v1 payload round trip. *)
From Coq Require Import List ZArith NArith Bool Arith Lia Permutation.
Import ListNotations.
From RV Require Import Model.DbCache.

(** ** the cache *)
Lemma flat_cache_add : forall r d c, Permutation (flat (cache_add r d c)) (flat c ++ [d]).
Proof.
  induction c as [|[r' ds] c IH]; simpl.
  - reflexivity.
  - destruct (Nat.eqb r r'); unfold flat in *; simpl.
    + rewrite <- !app_assoc. apply Permutation_app_head. apply Permutation_app_comm.
    + rewrite <- app_assoc. apply Permutation_app_head. exact IH.
Qed.

Lemma send_and_empty_cases : forall srv s,
  let s' := send_and_empty srv s in
  (cache s' = cache s /\ acked s' = acked s) \/
  (cache s <> [] /\ fst (transmit srv (next_req s)) = true /\ cache s' = [] /\ acked s' = acked s ++ [cache s]).
Proof.
  intros srv s. unfold send_and_empty. destruct (cache s) as [|x c] eqn:E.
  - left. split; [exact E | reflexivity].
  - destruct (transmit srv (next_req s)) as [ok k'] eqn:T. destruct ok; simpl.
    + right. repeat split; try reflexivity. discriminate.
    + left. split; reflexivity.
Qed.

(** a failed transmission leaves the cache (and the record of acknowledged data) as it was *)
Lemma failed_keeps_cache : forall srv s,
  fst (transmit srv (next_req s)) = false ->
  cache (send_and_empty srv s) = cache s /\ acked (send_and_empty srv s) = acked s.
Proof.
  intros srv s H. destruct (send_and_empty_cases srv s) as [Hc|[_ [Ht _]]]; [exact Hc|].
  rewrite H in Ht. discriminate.
Qed.

(** a successful transmission empties the cache and acknowledges exactly its content *)
Lemma ok_empties_cache : forall srv s,
  fst (transmit srv (next_req s)) = true ->
  cache (send_and_empty srv s) = [] /\
  (cache s <> [] -> acked (send_and_empty srv s) = acked s ++ [cache s]).
Proof.
  intros srv s H. unfold send_and_empty. destruct (cache s) as [|x c] eqn:E.
  - split; [exact E | intro; contradiction].
  - destruct (transmit srv (next_req s)) as [ok k']. simpl in H. subst. simpl. split; reflexivity.
Qed.

Lemma sent_app : forall a c, flat_map flat (a ++ [c]) = flat_map flat a ++ flat c.
Proof. intros. rewrite flat_map_app. simpl. rewrite app_nil_r. reflexivity. Qed.

Definition conserved (s : dbst) (l : list nat) : Prop := Permutation (sent s ++ flat (cache s)) l.

Lemma send_and_empty_conserved : forall srv s l, conserved s l -> conserved (send_and_empty srv s) l.
Proof.
  intros srv s l H. unfold conserved, sent in *.
  destruct (send_and_empty_cases srv s) as [[Hc Ha]|[_ [_ [Hc Ha]]]]; rewrite Hc, Ha.
  - exact H.
  - rewrite sent_app. simpl. rewrite app_nil_r. exact H.
Qed.

Lemma step_conserved : forall srv s e l, conserved s l -> conserved (step srv s e) (l ++ added [e]).
Proof.
  intros srv s e l H. destruct e as [r d|now|]; simpl.
  - unfold conserved, sent in *. simpl.
    rewrite (flat_cache_add r d (cache s)). rewrite app_assoc. apply Permutation_app_tail. exact H.
  - rewrite app_nil_r. destruct (cache_seconds <=? now - last_send s)%Z; [|exact H].
    pose proof (send_and_empty_conserved srv s l H) as H'. unfold conserved, sent in *. simpl. exact H'.
  - rewrite app_nil_r. apply send_and_empty_conserved. exact H.
Qed.

Lemma added_app : forall a b, added (a ++ b) = added a ++ added b.
Proof.
  induction a as [|e a IH]; intros b; [reflexivity|]. destruct e; simpl; rewrite IH; reflexivity.
Qed.

Lemma fold_conserved : forall srv evs s l, conserved s l -> conserved (fold_left (step srv) evs s) (l ++ added evs).
Proof.
  induction evs as [|e evs IH]; intros s l H.
  - simpl. rewrite app_nil_r. exact H.
  - simpl fold_left. replace (added (e :: evs)) with (added [e] ++ added evs) by (destruct e; reflexivity).
    rewrite app_assoc. apply IH. apply step_conserved. exact H.
Qed.

(** every data point handed to the persistence is, at any time, either in the cache or in
    exactly the acknowledged requests: nothing lost, nothing duplicated *)
Theorem conservation : forall srv t0 evs,
  Permutation (sent (run_events srv t0 evs) ++ flat (cache (run_events srv t0 evs))) (added evs).
Proof.
  intros. unfold run_events. apply (fold_conserved srv evs (db_init t0) []). unfold conserved. reflexivity.
Qed.

Lemma NoDup_app_l : forall (a b : list nat), NoDup (a ++ b) -> NoDup a.
Proof.
  induction a as [|x a IH]; intros b H; [constructor|]. simpl in H. inversion H; subst.
  constructor; [intro Hin; apply H2; apply in_or_app; left; exact Hin | eapply IH; eassumption].
Qed.

Theorem at_most_once : forall srv t0 evs, NoDup (added evs) -> NoDup (sent (run_events srv t0 evs)).
Proof.
  intros srv t0 evs H. pose proof (conservation srv t0 evs) as P.
  apply Permutation_sym in P. apply (Permutation_NoDup P) in H. apply NoDup_app_l in H. exact H.
Qed.

Theorem exactly_once_when_cache_empty : forall srv t0 evs,
  cache (run_events srv t0 evs) = [] -> Permutation (sent (run_events srv t0 evs)) (added evs).
Proof.
  intros srv t0 evs H. pose proof (conservation srv t0 evs) as P. rewrite H in P. simpl in P.
  rewrite app_nil_r in P. exact P.
Qed.

(** the session's last act is close(); if its transmission succeeds everything was acknowledged *)
Theorem exactly_once_if_final_ok : forall srv t0 evs,
  let s := run_events srv t0 evs in
  fst (transmit srv (next_req s)) = true ->
  Permutation (sent (run_events srv t0 (evs ++ [EClose]))) (added evs).
Proof.
  intros srv t0 evs s H.
  assert (E : added evs = added (evs ++ [EClose])) by (rewrite added_app; simpl; rewrite app_nil_r; reflexivity).
  rewrite E. apply exactly_once_when_cache_empty.
  unfold run_events. rewrite fold_left_app. simpl. apply ok_empties_cache. exact H.
Qed.

(** ** one request: at most five tries, none after a 4xx answer *)
Lemma send_retries_bound : forall srv a k, k < snd (send_retries srv k a) <= k + S a.
Proof.
  induction a as [|a IH]; intros k; simpl.
  - destruct (srv k); simpl; lia.
  - destruct (srv k); simpl; try lia; specialize (IH (S k)); lia.
Qed.

Lemma send_retries_4xx : forall srv a k, srv k = S4xx -> send_retries srv k a = (false, S k).
Proof. intros srv a k H. destruct a; simpl; rewrite H; reflexivity. Qed.

Lemma send_retries_ok_iff : forall srv a k,
  fst (send_retries srv k a) = true <->
  exists j, j <= a /\ srv (k + j) = Ack /\ forall i, i < j -> srv (k + i) = Refuse \/ srv (k + i) = S5xx.
Proof.
  induction a as [|a IH]; intros k; simpl.
  - destruct (srv k) eqn:E; simpl; (split; [intro H | intros [j [Hj [Ha Hb]]]]).
    all: try discriminate.
    all: try reflexivity.
    all: try (exists 0; rewrite Nat.add_0_r; repeat split; auto; intros; lia).
    all: assert (j = 0) by lia; subst; rewrite Nat.add_0_r in Ha; congruence.
  - destruct (srv k) eqn:E; simpl.
    + split; [|reflexivity]. intros _. exists 0. rewrite Nat.add_0_r. repeat split; auto; try lia.
    + rewrite IH. split.
      * intros [j [Hj [Ha Hb]]]. exists (S j). split; [lia|]. split.
        -- rewrite <- Nat.add_succ_comm. exact Ha.
        -- intros i Hi. destruct i; [rewrite Nat.add_0_r; left; exact E|].
           rewrite <- Nat.add_succ_comm. apply Hb. lia.
      * intros [j [Hj [Ha Hb]]]. destruct j; [rewrite Nat.add_0_r in Ha; congruence|].
        exists j. split; [lia|]. split.
        -- rewrite Nat.add_succ_comm. exact Ha.
        -- intros i Hi. rewrite Nat.add_succ_comm. apply Hb. lia.
    + rewrite IH. split.
      * intros [j [Hj [Ha Hb]]]. exists (S j). split; [lia|]. split.
        -- rewrite <- Nat.add_succ_comm. exact Ha.
        -- intros i Hi. destruct i; [rewrite Nat.add_0_r; right; exact E|].
           rewrite <- Nat.add_succ_comm. apply Hb. lia.
      * intros [j [Hj [Ha Hb]]]. destruct j; [rewrite Nat.add_0_r in Ha; congruence|].
        exists j. split; [lia|]. split.
        -- rewrite Nat.add_succ_comm. exact Ha.
        -- intros i Hi. rewrite Nat.add_succ_comm. apply Hb. lia.
    + split; [discriminate|]. intros [j [Hj [Ha Hb]]]. destruct j.
      * rewrite Nat.add_0_r in Ha. congruence.
      * specialize (Hb 0). rewrite Nat.add_0_r in Hb. destruct Hb; [lia| |]; congruence.
Qed.

(** ** API v1 payload: the receiver reads back exactly the measurements *)
Definition ctab_wf (t : ctab) : Prop :=
  forall c i, ctab_find c t = Some i -> ctab_crit i t = Some c.
Definition ctab_ext (t t' : ctab) : Prop := exists x, t' = t ++ x.
Definition ctab_idx (t : ctab) : Prop := forall c i, In (c, i) t -> i < length t.

Lemma ctab_ext_refl t : ctab_ext t t. Proof. exists []. rewrite app_nil_r. reflexivity. Qed.
Lemma ctab_ext_trans a b c : ctab_ext a b -> ctab_ext b c -> ctab_ext a c.
Proof. intros [x Hx] [y Hy]. exists (x ++ y). subst. rewrite app_assoc. reflexivity. Qed.

Lemma find_app_some : forall c t x i, ctab_find c t = Some i -> ctab_find c (t ++ x) = Some i.
Proof.
  induction t as [|[c' j] t IH]; intros x i H; simpl in *; [discriminate|].
  destruct (Nat.eqb c c'); [exact H | apply IH; exact H].
Qed.

Lemma find_in : forall c t i, ctab_find c t = Some i -> In (c, i) t.
Proof.
  induction t as [|[c' j] t IH]; intros i H; simpl in *; [discriminate|].
  destruct (Nat.eqb_spec c c'); [inversion H; subst; left; reflexivity | right; apply IH; exact H].
Qed.

(* full invariant of the criteria table: the i-th entry has index i, criteria are distinct *)
Fixpoint ctab_good_from (n : nat) (t : ctab) : Prop :=
  match t with
  | [] => True
  | (c, i) :: t' => i = n /\ ctab_find c t' = None /\ ctab_good_from (S n) t'
  end.
Definition ctab_good (t : ctab) : Prop := ctab_good_from 0 t.

Lemma good_from_idx : forall t n c i, ctab_good_from n t -> In (c, i) t -> n <= i < n + length t.
Proof.
  induction t as [|[c' j] t IH]; intros n c i G H; simpl in *; [contradiction|].
  destruct G as [Hj [_ G]]. destruct H as [H|H].
  - inversion H; subst. lia.
  - specialize (IH (S n) c i G H). lia.
Qed.

Lemma good_from_crit : forall t n c i, ctab_good_from n t -> ctab_find c t = Some i -> ctab_crit i t = Some c.
Proof.
  induction t as [|[c' j] t IH]; intros n c i G H; simpl in *; [discriminate|].
  destruct G as [Hj [Hn G]]. subst j.
  destruct (Nat.eqb_spec c c').
  - inversion H; subst. rewrite Nat.eqb_refl. reflexivity.
  - pose proof (find_in c t i H) as Hin. pose proof (good_from_idx t (S n) c i G Hin) as Hb.
    destruct (Nat.eqb_spec i n); [lia|]. eapply IH; eassumption.
Qed.

Lemma crit_app_some : forall i t x c, ctab_crit i t = Some c -> ctab_crit i (t ++ x) = Some c.
Proof.
  induction t as [|[c' j] t IH]; intros x c H; simpl in *; [discriminate|].
  destruct (Nat.eqb i j); [exact H | apply IH; exact H].
Qed.

Lemma find_app_none : forall c t x, ctab_find c t = None -> ctab_find c (t ++ x) = ctab_find c x.
Proof.
  induction t as [|[c' j] t IH]; intros x H; simpl in *; [reflexivity|].
  destruct (Nat.eqb c c'); [discriminate | apply IH; exact H].
Qed.

Lemma good_from_snoc : forall t n c, ctab_good_from n t -> ctab_find c t = None ->
  ctab_good_from n (t ++ [(c, n + length t)]).
Proof.
  induction t as [|[c' j] t IH]; intros n c G H; simpl in *.
  - repeat split; auto; lia.
  - destruct G as [Hj [Hn G]]. destruct (Nat.eqb_spec c c'); [discriminate|].
    split; [exact Hj|]. split.
    + rewrite find_app_none by exact Hn. simpl. destruct (Nat.eqb_spec c' c); [congruence|reflexivity].
    + replace (n + S (length t)) with (S n + length t) by lia. apply IH; assumption.
Qed.

Lemma intern_good : forall c t t' i, ctab_good t -> ctab_intern c t = (t', i) ->
  ctab_good t' /\ ctab_ext t t' /\ ctab_crit i t' = Some c.
Proof.
  intros c t t' i G H. unfold ctab_intern in H. destruct (ctab_find c t) as [j|] eqn:E.
  - inversion H; subst. split; [exact G|]. split; [apply ctab_ext_refl|]. eapply good_from_crit; eassumption.
  - inversion H; subst. pose proof (good_from_snoc t 0 c G E) as G'. simpl in G'.
    split; [exact G'|]. split; [eexists; reflexivity|].
    eapply good_from_crit; [exact G'|]. rewrite find_app_none by exact E. simpl. rewrite Nat.eqb_refl. reflexivity.
Qed.

Lemma dec_m_ext : forall t t' v i c, ctab_crit i t = Some c -> ctab_ext t t' -> dec_m t' (v, i) = (c, v).
Proof.
  intros t t' v i c H [x Hx]. subst. unfold dec_m. simpl. rewrite (crit_app_some i t x c H). reflexivity.
Qed.

Lemma enc_ms_ok : forall ms t t' out, ctab_good t -> enc_ms t ms = (t', out) ->
  ctab_good t' /\ ctab_ext t t' /\ forall tf, ctab_ext t' tf -> map (dec_m tf) out = ms.
Proof.
  induction ms as [|[c v] ms IH]; intros t t' out G H; simpl in H.
  - inversion H; subst. split; [exact G|]. split; [apply ctab_ext_refl|]. reflexivity.
  - destruct (ctab_intern c t) as [t1 i] eqn:E1. destruct (enc_ms t1 ms) as [t2 o2] eqn:E2.
    inversion H; subst. destruct (intern_good c t t1 i G E1) as [G1 [X1 C1]].
    destruct (IH t1 t' o2 G1 E2) as [G2 [X2 D2]].
    split; [exact G2|]. split; [eapply ctab_ext_trans; eassumption|].
    intros tf Xf. simpl. rewrite (D2 tf Xf). f_equal.
    eapply dec_m_ext; [exact C1|]. eapply ctab_ext_trans; eassumption.
Qed.

Lemma enc_dps_ok : forall ds t t' out, ctab_good t -> enc_dps t ds = (t', out) ->
  ctab_good t' /\ ctab_ext t t' /\ forall tf, ctab_ext t' tf -> map (dec_dp tf) out = ds.
Proof.
  induction ds as [|d ds IH]; intros t t' out G H; simpl in H.
  - inversion H; subst. split; [exact G|]. split; [apply ctab_ext_refl|]. reflexivity.
  - destruct (enc_ms t (d_ms d)) as [t1 m] eqn:E1. destruct (enc_dps t1 ds) as [t2 o2] eqn:E2.
    inversion H; subst. destruct (enc_ms_ok (d_ms d) t t1 m G E1) as [G1 [X1 D1]].
    destruct (IH t1 t' o2 G1 E2) as [G2 [X2 D2]].
    split; [exact G2|]. split; [eapply ctab_ext_trans; eassumption|].
    intros tf Xf. simpl. rewrite (D2 tf Xf). f_equal.
    unfold dec_dp. simpl. rewrite (D1 tf) by (eapply ctab_ext_trans; eassumption). destruct d; reflexivity.
Qed.

Lemma enc_runs_ok : forall data t t' out, ctab_good t -> enc_runs t data = (t', out) ->
  ctab_good t' /\ ctab_ext t t' /\
  forall tf, ctab_ext t' tf -> map (fun re => (fst re, map (dec_dp tf) (snd re))) out = data.
Proof.
  induction data as [|[r ds] data IH]; intros t t' out G H; simpl in H.
  - inversion H; subst. split; [exact G|]. split; [apply ctab_ext_refl|]. reflexivity.
  - destruct (enc_dps t ds) as [t1 e] eqn:E1. destruct (enc_runs t1 data) as [t2 o2] eqn:E2.
    inversion H; subst. destruct (enc_dps_ok ds t t1 e G E1) as [G1 [X1 D1]].
    destruct (IH t1 t' o2 G1 E2) as [G2 [X2 D2]].
    split; [exact G2|]. split; [eapply ctab_ext_trans; eassumption|].
    intros tf Xf. simpl. rewrite (D2 tf Xf). f_equal.
    rewrite (D1 tf) by (eapply ctab_ext_trans; eassumption). reflexivity.
Qed.

Theorem v1_roundtrip : forall data, decode_v1 (encode_v1 data) = data.
Proof.
  intros data. unfold encode_v1, decode_v1. destruct (enc_runs [] data) as [t out] eqn:E. simpl.
  destruct (enc_runs_ok data [] t out I E) as [_ [_ D]]. apply D. apply ctab_ext_refl.
Qed.

(** both converters report the number of measurements they were given *)
Lemma v1_count : forall data,
  fold_right (fun re acc => fold_right (fun e a => length (e_m e) + a) acc (snd re)) 0 (fst (encode_v1 data))
  = count_ms data.
Proof.
  intros data. rewrite <- (v1_roundtrip data) at 2. unfold decode_v1, count_ms.
  induction (fst (encode_v1 data)) as [|[r es] l IH]; [reflexivity|]. simpl. rewrite <- IH. clear IH.
  induction es as [|e es IH2]; [reflexivity|]. simpl. rewrite map_length. rewrite IH2. reflexivity.
Qed.
