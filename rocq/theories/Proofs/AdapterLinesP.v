(** Per-format line theorems (C05, line level): a line rendered in a documented format is matched by the
    expression GENERATED from the adapter's source, with the groups the adapter reads. *)
From Coq Require Import List NArith Bool Arith Lia.
Import ListNotations.
From RV Require Import Lib.Str Lib.Regex Gen.GenRegex Model.Adapters Proofs.RegexP Proofs.AdaptersP.

Definition ascii_digit (c : ch) : Prop := ((48 <=? c) && (c <=? 57))%N = true.
Definition digits (s : str) : Prop := s <> [] /\ Forall ascii_digit s.
Definition blank (c : ch) : Prop := c = 32%N \/ c = 9%N.
Definition blanks (s : str) : Prop := s <> [] /\ Forall blank s.

Section Lines.
  Variable U : uclass.

  Lemma digit_lt128 c : ascii_digit c -> (c <? 128)%N = true.
  Proof. unfold ascii_digit. intro H. apply andb_prop in H. destruct H as [_ H]. apply N.leb_le in H. apply N.ltb_lt. lia. Qed.
  Lemma digit_is_CDigit c : ascii_digit c -> cin U CDigit c = true.
  Proof. intro H. simpl. rewrite (digit_lt128 c H). exact H. Qed.
  Lemma digit_is_range c : ascii_digit c -> cin U (CRange 48%N 57%N) c = true.
  Proof. intro H. exact H. Qed.
  Lemma digit_not_space c : ascii_digit c -> cin U CSpace c = false.
  Proof.
    intro H. simpl. rewrite (digit_lt128 c H). unfold ascii_digit in H. apply andb_prop in H. destruct H as [A B].
    apply N.leb_le in A. apply N.leb_le in B. unfold is_ascii_space.
    repeat match goal with |- context [(?a <=? ?b)%N] => destruct (N.leb_spec a b) end;
    repeat match goal with |- context [(?a =? ?b)%N] => destruct (N.eqb_spec a b) end; simpl; try reflexivity; lia.
  Qed.
  Lemma blank_is_space c : blank c -> cin U CSpace c = true.
  Proof. intros [H|H]; subst; reflexivity. Qed.
  Lemma blank_not_name c : blank c -> cin U (COr CWord (CLit 46%N)) c = false.
  Proof. intros [H|H]; subst; reflexivity. Qed.

  Lemma Forall_impl' {A} (P Q : A -> Prop) l : (forall x, P x -> Q x) -> Forall P l -> Forall Q l.
  Proof. intros H F. eapply Forall_impl; [exact H | exact F]. Qed.

  Lemma stops_hd k (s rest : str) (P : ch -> Prop) :
    s <> [] -> Forall P s -> (forall c, P c -> cin U k c = false) -> stops U k (s ++ rest).
  Proof.
    intros Hn Hf Hp. destruct s as [|c s']; [contradiction|]. simpl. apply Hp. inversion Hf; assumption.
  Qed.

  Lemma match_of_first r s cs p t : first U r 0 s [] = Some (cs, p, t) -> re_match U r s = Some cs.
  Proof. unfold first, re_match. destruct (mt U r 0 s []) as [|[[c q] u] l]; [discriminate|]. simpl. intro H. inversion H. reflexivity. Qed.

  (** SavinaLog: "<name> Iteration-<n>: <int>.<frac> ms" *)
  Definition name_ok (s : str) : Prop := s <> [] /\ Forall (fun c => cin U (COr CWord (CLit 46%N)) c = true) s.
  Definition s_iteration : str := [73;116;101;114;97;116;105;111;110;45]%N.   (* Iteration- *)

  Definition savina_line (name sp1 ds sp2 ip fp tail : str) : str :=
    name ++ sp1 ++ s_iteration ++ ds ++ [58%N] ++ sp2 ++ (ip ++ [46%N] ++ fp) ++ [32; 109; 115]%N ++ tail.

  Theorem savina_line_first name sp1 ds sp2 ip fp tail :
    name_ok name -> blanks sp1 -> digits ds -> blanks sp2 -> digits ip -> digits fp ->
    exists p,
      first U sav_re_log_line 0 (savina_line name sp1 ds sp2 ip fp tail) []
      = Some ([(2, (length name + length sp1 + 10 + length ds + 1 + length sp2,
                    length name + length sp1 + 10 + length ds + 1 + length sp2 + (length ip + 1 + length fp)));
                (1, (0, length name))], p, tail).
  Proof.
    intros [Hn1 Hn2] [Hs1 Hs2] [Hd1 Hd2] [Ht1 Ht2] [Hi1 Hi2] [Hf1 Hf2].
    unfold sav_re_log_line, savina_line, s_iteration.
    eexists.
    eapply first_seq; [apply first_bol|].
    eapply first_seq.
    { apply first_grp. apply first_rep_class; [exact Hn2 | | destruct name; [contradiction | simpl; lia]].
      apply (stops_hd _ sp1 _ blank Hs1 Hs2). apply blank_not_name. }
    eapply first_seq.
    { apply first_rep_class; [eapply Forall_impl'; [apply blank_is_space | exact Hs2] | reflexivity | destruct sp1; [contradiction | simpl; lia]]. }
    cbn [app].
    do 10 (eapply first_seq; [apply first_chr; reflexivity|]).
    eapply first_seq.
    { apply first_rep_class; [eapply Forall_impl'; [apply digit_is_CDigit | exact Hd2] | reflexivity | destruct ds; [contradiction | simpl; lia]]. }
    cbn [app].
    eapply first_seq; [apply first_chr; reflexivity|].
    eapply first_seq.
    { apply first_rep_class; [eapply Forall_impl'; [apply blank_is_space | exact Ht2] | | destruct sp2; [contradiction | simpl; lia]].
      rewrite <- app_assoc. apply (stops_hd _ ip _ ascii_digit Hi1 Hi2). apply digit_not_space. }
    eapply first_seq.
    { apply first_grp. rewrite <- !app_assoc.
      eapply first_seq.
      { apply first_rep_class; [eapply Forall_impl'; [apply digit_is_range | exact Hi2] | reflexivity | destruct ip; [contradiction | simpl; lia]]. }
      cbn [app].
      eapply first_seq; [apply first_chr; reflexivity|].
      apply first_rep_class; [eapply Forall_impl'; [apply digit_is_range | exact Hf2] | reflexivity | destruct fp; [contradiction | simpl; lia]]. }
    cbn [app].
    eapply first_seq; [apply first_chr; reflexivity|].
    eapply first_seq; [apply first_chr; reflexivity|].
    match goal with |- first U _ ?p _ ?c = Some (?c2, _, _) =>
      replace c2 with c; [apply first_chr; reflexivity|] end.
    simpl. repeat f_equal; lia.
  Qed.

  Theorem savina_line_classified name sp1 ds sp2 ip fp tail :
    name_ok name -> blanks sp1 -> digits ds -> blanks sp2 -> digits ip -> digits fp ->
    sav_classify U (savina_line name sp1 ds sp2 ip fp tail)
    = LClose [mk_meas s_total s_ms (VFloat (ip ++ [46%N] ++ fp))].
  Proof.
    intros H1 H2 H3 H4 H5 H6.
    destruct (savina_line_first name sp1 ds sp2 ip fp tail H1 H2 H3 H4 H5 H6) as [p F].
    unfold sav_classify. rewrite (match_of_first _ _ _ _ _ F). unfold grp, group. simpl cap_lookup.
    f_equal. f_equal. f_equal. f_equal.
    unfold savina_line.
    replace (name ++ sp1 ++ s_iteration ++ ds ++ [58%N] ++ sp2 ++ (ip ++ [46%N] ++ fp) ++ [32%N; 109%N; 115%N] ++ tail)
      with ((name ++ sp1 ++ s_iteration ++ ds ++ [58%N] ++ sp2) ++ (ip ++ [46%N] ++ fp) ++ ([32%N; 109%N; 115%N] ++ tail))
      by (rewrite <- !app_assoc; reflexivity).
    assert (E1 : length name + length sp1 + 10 + length ds + 1 + length sp2
                 = length (name ++ sp1 ++ s_iteration ++ ds ++ [58%N] ++ sp2)).
    { clear. unfold s_iteration. rewrite !app_length. simpl length. unfold str, ch. lia. }
    assert (E2 : length ip + 1 + length fp = length (ip ++ [46%N] ++ fp)).
    { clear. rewrite !app_length. simpl length. unfold str, ch. lia. }
    rewrite E1, E2. apply substr_mid.
  Qed.
End Lines.

(** TimeAdapter with GNU time's format: "max rss (kb): <n>" and "wall-time (secounds): <int>.<frac>" *)
Section TimeFormatted.
  Variable U : uclass.
  Definition s_maxrss : str := [109;97;120;32;114;115;115;32;40;107;98;41;58;32]%N.
  Definition s_wall : str := [119;97;108;108;45;116;105;109;101;32;40;115;101;99;111;117;110;100;115;41;58;32]%N.

  Theorem time_rss_line ds tail :
    digits ds -> stops U CDigit tail ->
    timf_classify U (s_maxrss ++ ds ++ tail) = LAdd [mk_meas s_MaxRSS s_kb (VFloat ds)].
  Proof.
    intros [Hd1 Hd2] Hst.
    assert (F : first U tim_re_formatted_rss 0 (s_maxrss ++ ds ++ tail) [] = Some ([(1, (14, 14 + length ds))], 14 + length ds, tail)).
    { unfold tim_re_formatted_rss, s_maxrss. cbn [app].
      eapply first_seq; [apply first_bol|].
      do 14 (eapply first_seq; [apply first_chr; reflexivity|]).
      apply first_grp. apply first_rep_class; [eapply Forall_impl'; [apply digit_is_CDigit | exact Hd2] | exact Hst | destruct ds; [contradiction | simpl; lia]]. }
    unfold timf_classify. rewrite (match_of_first U _ _ _ _ _ F). unfold grp, group. simpl cap_lookup.
    f_equal. f_equal. f_equal. f_equal.
    replace (s_maxrss ++ ds ++ tail) with (s_maxrss ++ ds ++ tail) by reflexivity.
    assert (E : 14 = length s_maxrss) by reflexivity. rewrite E. apply substr_mid.
  Qed.

  Theorem time_wall_line ip fp tail :
    digits ip -> digits fp -> stops U CDigit tail ->
    timf_classify U (s_wall ++ (ip ++ [46%N] ++ fp) ++ tail)
    = LClose [mk_meas s_total s_ms (VFloatMul1000 (ip ++ [46%N] ++ fp))].
  Proof.
    intros [Hi1 Hi2] [Hf1 Hf2] Hst.
    assert (N0 : re_match U tim_re_formatted_rss (s_wall ++ (ip ++ [46%N] ++ fp) ++ tail) = None) by reflexivity.
    assert (F : first U tim_re_formatted_time 0 (s_wall ++ (ip ++ [46%N] ++ fp) ++ tail) []
                = Some ([(1, (22, 22 + (length ip + 1 + length fp)))], 22 + (length ip + 1 + length fp), tail)).
    { unfold tim_re_formatted_time, s_wall. cbn [app].
      eapply first_seq; [apply first_bol|].
      do 22 (eapply first_seq; [apply first_chr; reflexivity|]).
      match goal with |- first U (Grp 1 ?r) ?p ?s ?c = Some (?c2, ?p2, _) =>
        assert (G : first U r p s c = Some (c, p2, tail)) end.
      { rewrite <- !app_assoc.
        eapply first_seq.
        { apply first_rep_class; [eapply Forall_impl'; [apply digit_is_CDigit | exact Hi2] | reflexivity | destruct ip; [contradiction | simpl; lia]]. }
        cbn [app]. eapply first_seq; [apply first_chr; reflexivity|].
        match goal with |- first U _ ?p _ _ = Some (_, ?q, _) => replace q with (p + length fp) by lia end.
        apply first_rep_class; [eapply Forall_impl'; [apply digit_is_CDigit | exact Hf2] | exact Hst | destruct fp; [contradiction | simpl; lia]]. }
      apply first_grp. exact G. }
    unfold timf_classify. rewrite N0. rewrite (match_of_first U _ _ _ _ _ F). unfold grp, group. simpl cap_lookup.
    f_equal. f_equal. f_equal. f_equal.
    assert (E : 22 = length s_wall) by reflexivity.
    assert (E2 : length ip + 1 + length fp = length (ip ++ [46%N] ++ fp)) by (rewrite !app_length; simpl length; unfold str, ch; lia).
    rewrite E, E2. apply substr_mid.
  Qed.
End TimeFormatted.

(** JMH: "Iteration<blanks><n>:<blanks><int>.<frac><blanks><unit>" (a measured iteration) *)
Section JMH.
  Variable U : uclass.
  Definition s_Iteration : str := [73;116;101;114;97;116;105;111;110]%N.
  Definition no_newline (s : str) : Prop := s <> [] /\ Forall (fun c => (c =? 10)%N = false) s.

  Definition jmh_line (sp1 ds sp2 ip fp sp3 unit : str) : str :=
    s_Iteration ++ sp1 ++ ds ++ [58%N] ++ sp2 ++ (ip ++ [46%N] ++ fp) ++ sp3 ++ unit.

  Theorem jmh_line_classified sp1 ds sp2 ip fp sp3 unit :
    blanks sp1 -> digits ds -> blanks sp2 -> digits ip -> digits fp -> blanks sp3 -> no_newline unit ->
    stops U CSpace unit ->
    jmh_classify U (jmh_line sp1 ds sp2 ip fp sp3 unit)
    = LClose [mk_meas s_total (strip U unit) (VFloat (ip ++ [46%N] ++ fp))].
  Proof.
    intros [Hs1 Hs2] [Hd1 Hd2] [Ht1 Ht2] [Hi1 Hi2] [Hf1 Hf2] [Hu1 Hu2] [Hn1 Hn2] Hstop.
    set (A := s_Iteration ++ sp1 ++ ds ++ [58%N] ++ sp2).
    set (B := ip ++ [46%N] ++ fp).
    assert (F : exists c1, first U jmh_re_result_line 0 (jmh_line sp1 ds sp2 ip fp sp3 unit) []
                = Some ((4, (length A + length B + length sp3, length A + length B + length sp3 + length unit))
                        :: (3, (length A, length A + length B)) :: c1,
                        length A + length B + length sp3 + length unit, [])).
    { unfold jmh_re_result_line, jmh_line, s_Iteration. cbn [app]. eexists.
      eapply first_seq; [apply first_bol|].
      eapply first_seq.
      { apply first_grp. apply first_alt_left.
        do 8 (eapply first_seq; [apply first_chr; reflexivity|]). apply first_chr. reflexivity. }
      eapply first_seq.
      { apply first_rep_class; [eapply Forall_impl'; [apply blank_is_space | exact Hs2] | | destruct sp1; [contradiction | simpl; lia]].
        apply (stops_hd U _ ds _ ascii_digit Hd1 Hd2). apply digit_not_space. }
      eapply first_seq.
      { apply first_grp. apply first_rep_class; [eapply Forall_impl'; [apply digit_is_CDigit | exact Hd2] | reflexivity | destruct ds; [contradiction | simpl; lia]]. }
      cbn [app]. eapply first_seq; [apply first_chr; reflexivity|].
      eapply first_seq.
      { apply first_rep_class; [eapply Forall_impl'; [apply blank_is_space | exact Ht2] | | destruct sp2; [contradiction | simpl; lia]].
        rewrite <- app_assoc. apply (stops_hd U _ ip _ ascii_digit Hi1 Hi2). apply digit_not_space. }
      eapply first_seq.
      { apply first_grp. rewrite <- !app_assoc.
        eapply first_seq.
        { apply first_rep_class; [eapply Forall_impl'; [apply digit_is_CDigit | exact Hi2] | reflexivity | destruct ip; [contradiction | simpl; lia]]. }
        cbn [app]. apply first_opt_some.
        { eapply first_seq; [apply first_chr; reflexivity|].
          apply first_rep_class; [eapply Forall_impl'; [apply digit_is_CDigit | exact Hf2] | | destruct fp; [contradiction | simpl; lia]].
          apply (stops_hd U _ sp3 _ blank Hu1 Hu2). intros c Hc. destruct Hc; subst; reflexivity. }
        { lia. } }
      eapply first_seq.
      { apply first_rep_class; [eapply Forall_impl'; [apply blank_is_space | exact Hu2] | exact Hstop | destruct sp3; [contradiction | simpl; lia]]. }
      match goal with |- first U (Grp 4 _) ?p ?s ?c = _ =>
        assert (G : first U (Rep 1 None (Chr CAny)) p s c = Some (c, p + length unit, [])) end.
      { rewrite <- (app_nil_r unit) at 1. apply first_rep_class; [|exact I | destruct unit; [contradiction | simpl; lia]].
        eapply Forall_impl'; [|exact Hn2]. intros c Hc. simpl. rewrite Hc. reflexivity. }
      apply (first_grp U 4) in G. rewrite G.
      assert (LA : length A = S (9 + length sp1 + length ds) + length sp2)
        by (unfold A, s_Iteration; rewrite !app_length; simpl length; unfold str, ch; lia).
      assert (LB : length B = length ip + 1 + length fp)
        by (unfold B; rewrite !app_length; simpl length; unfold str, ch; lia).
      rewrite LA, LB. repeat (f_equal; try (unfold str, ch; lia)). }
    destruct F as [c1 F].
    assert (L : jmh_line sp1 ds sp2 ip fp sp3 unit = A ++ B ++ (sp3 ++ unit))
      by (unfold jmh_line, A, B; rewrite <- !app_assoc; reflexivity).
    clearbody A B.
    unfold jmh_classify. rewrite (match_of_first U _ _ _ _ _ F). unfold grp, group. simpl cap_lookup.
    f_equal. f_equal. f_equal.
    - f_equal. rewrite L.
      replace (A ++ B ++ sp3 ++ unit) with ((A ++ B ++ sp3) ++ unit ++ []) by (rewrite app_nil_r, <- !app_assoc; reflexivity).
      replace (length A + length B + length sp3) with (length (A ++ B ++ sp3)) by (rewrite !app_length; lia).
      apply substr_mid.
    - f_equal. rewrite L. apply substr_mid.
  Qed.
End JMH.

(** SavinaLog end to end at the level of lines: any sequence of rendered iterations with noise lines in between
    is parsed into exactly one data point per iteration, carrying the numeral that was printed. *)
Section Savina.
  Variable U : uclass.
  Variable faulty : bool.

  Record sav_iter := { si_name : str; si_sp1 : str; si_ds : str; si_sp2 : str; si_ip : str; si_fp : str; si_tail : str }.
  Definition sav_render (i : sav_iter) : str :=
    savina_line (si_name i) (si_sp1 i) (si_ds i) (si_sp2 i) (si_ip i) (si_fp i) (si_tail i).
  Definition sav_iter_ok (i : sav_iter) : Prop :=
    name_ok U (si_name i) /\ blanks (si_sp1 i) /\ digits (si_ds i) /\ blanks (si_sp2 i) /\ digits (si_ip i) /\ digits (si_fp i)
    /\ common_err U faulty [] (sav_render i) = false.        (* no failure marker in the name or after the unit *)
  Definition sav_value (i : sav_iter) : dp := [mk_meas s_total s_ms (VFloat (si_ip i ++ [46%N] ++ si_fp i))].

  Inductive sav_item := SNoise (l : str) | SIter (i : sav_iter).
  Definition sav_item_ok (x : sav_item) : Prop :=
    match x with
    | SNoise l => common_err U faulty [] l = false /\ sav_classify U l = LIgnore
    | SIter i => sav_iter_ok i
    end.
  Definition sav_item_line (x : sav_item) : str := match x with SNoise l => l | SIter i => sav_render i end.
  Definition sav_item_dp (x : sav_item) : list dp := match x with SNoise _ => [] | SIter i => [sav_value i] end.

  Theorem savina_iterations_exact (xs : list sav_item) :
    Forall sav_item_ok xs -> flat_map sav_item_dp xs <> [] ->
    loop (common_err U faulty []) (fun _ => false) (sav_classify U) (map sav_item_line xs) [] []
    = POk (flat_map sav_item_dp xs).
  Proof.
    intros Hok Hne.
    pose (conv := fun x => match x with
                           | SNoise l => INoise l
                           | SIter i => IIter [] (sav_render i, sav_value i) end).
    assert (E1 : map sav_item_line xs = concat (map item_lines (map conv xs))).
    { clear. induction xs as [|x xs IH]; [reflexivity|]. simpl. rewrite IH. destruct x; reflexivity. }
    assert (E2 : flat_map sav_item_dp xs = flat_map item_dp (map conv xs)).
    { clear. induction xs as [|x xs IH]; [reflexivity|]. simpl. rewrite IH. destruct x; reflexivity. }
    rewrite E1, E2. apply loop_exact; [|rewrite <- E2; exact Hne].
    apply Forall_forall. intros it Hin. apply in_map_iff in Hin. destruct Hin as [x [Ex Hx]]. subst it.
    rewrite Forall_forall in Hok. specialize (Hok x Hx). destruct x as [l|i]; simpl in *.
    - destruct Hok as [A B]. split; [split; [reflexivity | exact A] | right; split; [exact B | reflexivity]].
    - destruct Hok as [H1 [H2 [H3 [H4 [H5 [H6 H7]]]]]]. split; [constructor|]. split; [split; [reflexivity | exact H7]|].
      apply savina_line_classified; assumption.
  Qed.
End Savina.
