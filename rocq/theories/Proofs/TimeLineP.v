(** C05, line level, TimeAdapter without GNU time ("time -p" / the shell's time):
      "<crit><blanks><min>m<int>.<frac>s"    (re_time)
      "<crit><blanks><int>.<frac>"           (re_time2 - only after re_time was shown NOT to match)
    with the expressions GENERATED from time_adapter.py. *)
From Coq Require Import List NArith Bool Arith Lia.
Import ListNotations.
From RV Require Import Lib.Str Lib.Regex Gen.GenRegex Model.Adapters Proofs.RegexP Proofs.AdaptersP Proofs.AdapterLinesP
  Proofs.RebenchLineP.

Definition ascii_alpha (c : ch) : Prop := (((65 <=? c) && (c <=? 90)) || ((97 <=? c) && (c <=? 122)))%N = true.
Definition letters (s : str) : Prop := s <> [] /\ Forall ascii_alpha s.

Definition tim_R1 : re := Eval cbv in seq_r (seq_r tim_re_time).     (* \s*(\d+)m(\d+\.\d+)s *)
Definition tim_R2 : re := Eval cbv in seq_r tim_R1.                  (* (\d+)m(\d+\.\d+)s *)
Definition tim_R3 : re := Eval cbv in seq_r tim_R2.                  (* m(\d+\.\d+)s *)
Lemma tim_shape : tim_re_time = Seq Bol (Seq (Grp 1 (Rep 1 None (Chr CWord))) (Seq (Rep 0 None (Chr CSpace)) (Seq (Grp 2 (Rep 1 None (Chr CDigit))) tim_R3))).
Proof. reflexivity. Qed.

Section TimeP.
  Variable U : uclass.

  Lemma alpha_lt128 c : ascii_alpha c -> (c <? 128)%N = true.
  Proof.
    unfold ascii_alpha. intro H. apply N.ltb_lt. apply orb_prop in H. destruct H as [H|H]; apply andb_prop in H; destruct H as [A B];
      apply N.leb_le in A; apply N.leb_le in B; lia.
  Qed.
  Lemma alpha_word c : ascii_alpha c -> cin U CWord c = true.
  Proof.
    intro H. cbn [cin]. rewrite (alpha_lt128 c H). unfold is_ascii_word. unfold ascii_alpha in H.
    apply orb_prop in H. destruct H as [H|H]; rewrite H; rewrite ?orb_true_r; reflexivity.
  Qed.
  Lemma alpha_bounds c : ascii_alpha c -> (65 <= c <= 122)%N.
  Proof.
    unfold ascii_alpha. intro H. apply orb_prop in H. destruct H as [H|H]; apply andb_prop in H; destruct H as [A B];
      apply N.leb_le in A; apply N.leb_le in B; lia.
  Qed.
  Lemma alpha_not_space c : ascii_alpha c -> cin U CSpace c = false.
  Proof.
    intro H. cbn [cin]. rewrite (alpha_lt128 c H). apply alpha_bounds in H. unfold is_ascii_space.
    repeat match goal with |- context [(?a <=? ?b)%N] => destruct (N.leb_spec a b) end;
    repeat match goal with |- context [(?a =? ?b)%N] => destruct (N.eqb_spec a b) end; simpl; try reflexivity; lia.
  Qed.
  Lemma alpha_not_digit c : ascii_alpha c -> cin U CDigit c = false.
  Proof.
    intro H. cbn [cin]. rewrite (alpha_lt128 c H). apply alpha_bounds in H. unfold is_ascii_digit.
    repeat match goal with |- context [(?a <=? ?b)%N] => destruct (N.leb_spec a b) end; simpl; try reflexivity; lia.
  Qed.
  Lemma blank_not_word c : blank c -> cin U CWord c = false.
  Proof. intros [H|H]; subst; reflexivity. Qed.
  Lemma blank_not_digit c : blank c -> cin U CDigit c = false.
  Proof. intros [H|H]; subst; reflexivity. Qed.
  Lemma digit_not_m c : ascii_digit c -> cin U (CLit 109%N) c = false.
  Proof. unfold ascii_digit. intro H. apply andb_prop in H. destruct H as [_ H]. apply N.leb_le in H. cbn [cin]. apply N.eqb_neq. lia. Qed.

  Lemma mt_grp' i a p s cs : mt U (Grp i a) p s cs = map (grpf i p) (mt U a p s cs).
  Proof. reflexivity. Qed.

  Lemma mt_seq_bol r s cs : mt U (Seq Bol r) 0 s cs = mt U r 0 s cs.
  Proof. rewrite mt_seq. change (mt U Bol 0 s cs) with [(cs, 0, s)]. cbn [flat_map]. apply app_nil_r. Qed.

  (** re_time cannot match "<crit><blanks><int>.<frac>..." *)
  Lemma R3_fail_hd p c t cs : cin U (CLit 109%N) c = false -> mt U tim_R3 p (c :: t) cs = [].
  Proof. intro H. unfold tim_R3. apply mt_seq_chr_fail. exact H. Qed.

  Lemma R2_fail_nondigit p s cs : stops U CDigit s -> mt U tim_R2 p s cs = [].
  Proof.
    intro H. change tim_R2 with (Seq (Grp 2 (Rep 1 None (Chr CDigit))) tim_R3). rewrite mt_seq, mt_grp'.
    change s with ([] ++ s). rewrite (mt_rep_class_all U CDigit 1 [] s) by (try constructor; exact H). reflexivity.
  Qed.

  Lemma R2_fail_digits p run c t cs :
    Forall ascii_digit run -> cin U CDigit c = false -> cin U (CLit 109%N) c = false -> mt U tim_R2 p (run ++ c :: t) cs = [].
  Proof.
    intros Hr Hc Hm. change tim_R2 with (Seq (Grp 2 (Rep 1 None (Chr CDigit))) tim_R3). rewrite mt_seq, mt_grp'.
    rewrite (mt_rep_class_all U CDigit 1 run (c :: t)); [|eapply Forall_impl'; [apply digit_is_CDigit | exact Hr] | exact Hc].
    apply flat_map_all_nil. intros x Hx. apply in_map_iff in Hx. destruct Hx as [[[c0 p0] s0] [Ex Hy]]. subst x.
    apply cands_in in Hy. destruct Hy as [j [Hj Ey]]. remember (skipn j run) as sk eqn:Ek. inversion Ey; subst c0 p0 s0.
    cbn [grpf]. destruct sk as [|d t']; [cbn [app]; apply R3_fail_hd; exact Hm|]. symmetry in Ek. apply skipn_in in Ek.
    rewrite Forall_forall in Hr. cbn [app]. apply R3_fail_hd. apply digit_not_m. apply Hr. exact Ek.
  Qed.

  Lemma R1_fail_plain p c t cs : cin U CSpace c = false -> cin U CDigit c = false -> mt U tim_R1 p (c :: t) cs = [].
  Proof.
    intros Hs Hd. change tim_R1 with (Seq (Rep 0 None (Chr CSpace)) tim_R2). rewrite mt_seq.
    change (c :: t) with ([] ++ c :: t) at 1. rewrite (mt_rep_class_all U CSpace 0 [] (c :: t)) by (try constructor; exact Hs).
    cbn [cands flat_map]. rewrite (R2_fail_nondigit p (c :: t) cs Hd). reflexivity.
  Qed.

  Lemma R1_fail_blank_digits p sp ip t cs :
    Forall blank sp -> digits ip -> mt U tim_R1 p (sp ++ ip ++ 46%N :: t) cs = [].
  Proof.
    intros Hsp [Hi1 Hi2]. change tim_R1 with (Seq (Rep 0 None (Chr CSpace)) tim_R2). rewrite mt_seq.
    rewrite (mt_rep_class_all U CSpace 0 sp (ip ++ 46%N :: t));
      [|eapply Forall_impl'; [apply blank_is_space | exact Hsp] | apply (stops_hd U _ ip _ ascii_digit Hi1 Hi2); apply digit_not_space].
    apply flat_map_all_nil. intros x Hx. apply cands_in in Hx. destruct Hx as [j [Hj Ex]]. subst x.
    remember (skipn j sp) as sk eqn:Ek. destruct sk as [|b t'].
    - cbn [app]. apply R2_fail_digits; [exact Hi2 | reflexivity | reflexivity].
    - symmetry in Ek. apply skipn_in in Ek. rewrite Forall_forall in Hsp. cbn [app]. apply R2_fail_nondigit. cbn [stops].
      apply blank_not_digit. apply Hsp. exact Ek.
  Qed.

  Lemma re_time_rejects name sp ip t :
    letters name -> blanks sp -> digits ip -> re_match U tim_re_time (name ++ sp ++ ip ++ 46%N :: t) = None.
  Proof.
    intros [Hn1 Hn2] [Hs1 Hs2] Hip. unfold re_match.
    assert (E : mt U tim_re_time 0 (name ++ sp ++ ip ++ 46%N :: t) [] = []); [|rewrite E; reflexivity].
    rewrite tim_shape. rewrite mt_seq_bol.
    change (Seq (Rep 0 None (Chr CSpace)) (Seq (Grp 2 (Rep 1 None (Chr CDigit))) tim_R3)) with tim_R1.
    rewrite mt_seq, mt_grp'.
    rewrite (mt_rep_class_all U CWord 1 name (sp ++ ip ++ 46%N :: t));
      [|eapply Forall_impl'; [apply alpha_word | exact Hn2] | apply (stops_hd U _ sp _ blank Hs1 Hs2); apply blank_not_word].
    apply flat_map_all_nil. intros x Hx. apply in_map_iff in Hx. destruct Hx as [[[c0 p0] s0] [Ex Hy]]. subst x.
    apply cands_in in Hy. destruct Hy as [j [Hj Ey]]. remember (skipn j name) as sk eqn:Ek. inversion Ey; subst c0 p0 s0.
    cbn [grpf]. destruct sk as [|c t'].
    - cbn [app]. apply R1_fail_blank_digits; assumption.
    - symmetry in Ek. apply skipn_in in Ek. rewrite Forall_forall in Hn2. specialize (Hn2 c Ek). cbn [app].
      apply R1_fail_plain; [apply alpha_not_space | apply alpha_not_digit]; exact Hn2.
  Qed.

  Definition crit_of (name : str) : str := if str_eqb name s_real then s_total else name.

  (** "<crit><blanks><int>.<frac>" (time -p) *)
  Theorem time_p_line name sp ip fp tail :
    letters name -> blanks sp -> digits ip -> digits fp -> stops U CDigit tail ->
    timp_line U (name ++ sp ++ (ip ++ [46%N] ++ fp) ++ tail)
    = Some (mk_meas (crit_of name) s_ms (VMinSec sp (ip ++ [46%N] ++ fp))).
  Proof.
    intros Hn Hs Hi Hf Hst.
    assert (N0 : re_match U tim_re_time (name ++ sp ++ (ip ++ [46%N] ++ fp) ++ tail) = None).
    { rewrite <- !app_assoc. cbn [app]. apply re_time_rejects; assumption. }
    destruct Hn as [Hn1 Hn2]. destruct Hs as [Hs1 Hs2]. destruct Hi as [Hi1 Hi2]. destruct Hf as [Hf1 Hf2].
    assert (F : first U tim_re_time2 0 (name ++ sp ++ (ip ++ [46%N] ++ fp) ++ tail) []
                = Some ([(3, (length name + length sp, length name + length sp + (length ip + 1 + length fp)));
                         (2, (length name, length name + length sp)); (1, (0, length name))],
                        length name + length sp + (length ip + 1 + length fp), tail)).
    { unfold tim_re_time2.
      eapply first_seq; [apply first_bol|].
      eapply first_seq.
      { apply first_grp. apply first_rep_class; [eapply Forall_impl'; [apply alpha_word | exact Hn2] | | destruct name; [contradiction | simpl; lia]].
        apply (stops_hd U _ sp _ blank Hs1 Hs2). apply blank_not_word. }
      eapply first_seq.
      { apply first_grp. apply first_rep_class; [eapply Forall_impl'; [apply blank_is_space | exact Hs2] | | lia].
        rewrite <- !app_assoc. apply (stops_hd U _ ip _ ascii_digit Hi1 Hi2). apply digit_not_space. }
      match goal with |- first U (Grp 3 ?r) ?p ?s ?c = Some (_, ?p2, _) =>
        assert (G : first U r p s c = Some (c, p2, tail)) end.
      { rewrite <- !app_assoc.
        eapply first_seq.
        { apply first_rep_class; [eapply Forall_impl'; [apply digit_is_CDigit | exact Hi2] | reflexivity | destruct ip; [contradiction | simpl; lia]]. }
        cbn [app]. eapply first_seq; [apply first_chr; reflexivity|].
        match goal with |- first U _ ?p _ _ = Some (_, ?q, _) => replace q with (p + length fp) by lia end.
        apply first_rep_class; [eapply Forall_impl'; [apply digit_is_CDigit | exact Hf2] | exact Hst | destruct fp; [contradiction | simpl; lia]]. }
      simpl Nat.add at 1. apply first_grp. exact G. }
    unfold timp_line. rewrite N0. rewrite (match_of_first U _ _ _ _ _ F). unfold grp, group. simpl cap_lookup. cbv beta iota.
    assert (E2 : length ip + 1 + length fp = length (ip ++ [46%N] ++ fp)) by (rewrite !app_length; simpl length; unfold str, ch; lia).
    assert (G1 : substr (name ++ sp ++ (ip ++ [46%N] ++ fp) ++ tail) 0 (length name) = name).
    { change (name ++ sp ++ (ip ++ [46%N] ++ fp) ++ tail) with ([] ++ name ++ (sp ++ (ip ++ [46%N] ++ fp) ++ tail)).
      change 0 with (length (@nil ch)). apply (substr_mid [] name). }
    assert (G2 : substr (name ++ sp ++ (ip ++ [46%N] ++ fp) ++ tail) (length name) (length name + length sp) = sp) by apply substr_mid.
    assert (G3 : substr (name ++ sp ++ (ip ++ [46%N] ++ fp) ++ tail) (length name + length sp) (length name + length sp + (length ip + 1 + length fp))
                 = ip ++ [46%N] ++ fp).
    { rewrite E2, <- app_length, app_assoc. apply substr_mid. }
    rewrite G1, G2, G3. reflexivity.
  Qed.

  (** "<crit><blanks><min>m<int>.<frac>s" (the shell's time) *)
  Theorem time_sh_line name sp mn ip fp tail :
    letters name -> blanks sp -> digits mn -> digits ip -> digits fp ->
    timp_line U (name ++ sp ++ mn ++ [109%N] ++ (ip ++ [46%N] ++ fp) ++ [115%N] ++ tail)
    = Some (mk_meas (crit_of name) s_ms (VMinSec mn (ip ++ [46%N] ++ fp))).
  Proof.
    intros [Hn1 Hn2] [Hs1 Hs2] [Hm1 Hm2] [Hi1 Hi2] [Hf1 Hf2].
    set (A := name ++ sp).
    assert (LA : length A = length name + length sp) by (unfold A; apply app_length).
    assert (F : exists p, first U tim_re_time 0 (name ++ sp ++ mn ++ [109%N] ++ (ip ++ [46%N] ++ fp) ++ [115%N] ++ tail) []
                = Some ([(3, (length A + length mn + 1, length A + length mn + 1 + (length ip + 1 + length fp)));
                         (2, (length A, length A + length mn)); (1, (0, length name))], p, tail)).
    { unfold tim_re_time. eexists.
      eapply first_seq; [apply first_bol|].
      eapply first_seq.
      { apply first_grp. apply first_rep_class; [eapply Forall_impl'; [apply alpha_word | exact Hn2] | | destruct name; [contradiction | simpl; lia]].
        apply (stops_hd U _ sp _ blank Hs1 Hs2). apply blank_not_word. }
      eapply first_seq.
      { apply first_rep_class; [eapply Forall_impl'; [apply blank_is_space | exact Hs2] | | lia].
        apply (stops_hd U _ mn _ ascii_digit Hm1 Hm2). apply digit_not_space. }
      eapply first_seq.
      { apply first_grp. apply first_rep_class; [eapply Forall_impl'; [apply digit_is_CDigit | exact Hm2] | reflexivity | destruct mn; [contradiction | simpl; lia]]. }
      cbn [app]. eapply first_seq; [apply first_chr; reflexivity|].
      eapply first_seq.
      { apply first_grp. rewrite <- !app_assoc.
        eapply first_seq.
        { apply first_rep_class; [eapply Forall_impl'; [apply digit_is_CDigit | exact Hi2] | reflexivity | destruct ip; [contradiction | simpl; lia]]. }
        cbn [app]. eapply first_seq; [apply first_chr; reflexivity|].
        apply first_rep_class; [eapply Forall_impl'; [apply digit_is_CDigit | exact Hf2] | reflexivity | destruct fp; [contradiction | simpl; lia]]. }
      match goal with |- first U _ ?p _ ?c = Some (?c2, _, _) =>
        replace c2 with c; [apply first_chr; reflexivity|] end.
      rewrite LA. repeat match goal with |- (_, _) = (_, _) => f_equal | |- _ :: _ = _ :: _ => f_equal end; unfold str, ch in *; simpl; lia. }
    destruct F as [p F].
    unfold timp_line. rewrite (match_of_first U _ _ _ _ _ F). unfold grp, group. simpl cap_lookup. cbv beta iota.
    assert (E2 : length ip + 1 + length fp = length (ip ++ [46%N] ++ fp)) by (rewrite !app_length; simpl length; unfold str, ch; lia).
    set (Ln := name ++ sp ++ mn ++ [109%N] ++ (ip ++ [46%N] ++ fp) ++ [115%N] ++ tail).
    assert (G1 : substr Ln 0 (length name) = name).
    { change Ln with ([] ++ name ++ (sp ++ mn ++ [109%N] ++ (ip ++ [46%N] ++ fp) ++ [115%N] ++ tail)).
      change 0 with (length (@nil ch)). apply (substr_mid [] name). }
    assert (G2 : substr Ln (length A) (length A + length mn) = mn).
    { replace Ln with (A ++ mn ++ ([109%N] ++ (ip ++ [46%N] ++ fp) ++ [115%N] ++ tail)) by (unfold Ln, A; rewrite <- !app_assoc; reflexivity).
      apply substr_mid. }
    assert (G3 : substr Ln (length A + length mn + 1) (length A + length mn + 1 + (length ip + 1 + length fp)) = ip ++ [46%N] ++ fp).
    { replace Ln with ((A ++ mn ++ [109%N]) ++ (ip ++ [46%N] ++ fp) ++ ([115%N] ++ tail)) by (unfold Ln, A; rewrite <- !app_assoc; reflexivity).
      replace (length A + length mn + 1) with (length (A ++ mn ++ [109%N])) by (rewrite !app_length; simpl length; unfold str, ch; lia).
      rewrite E2. apply substr_mid. }
    rewrite G1, G2, G3. reflexivity.
  Qed.
End TimeP.

(** time -p at the level of the whole output: measures that are not the total are collected in order, the LAST total
    line closes the single data point; without a total line the output is rejected. *)
Section TimeLoop.
  Variable U : uclass.
  Variable faulty : bool.

  Inductive t_item := TNoise (l : str) | TMeas (l : str) (m : meas).
  Definition t_item_ok (x : t_item) : Prop :=
    match x with
    | TNoise l => common_err U faulty [] l = false /\ timp_line U l = None
    | TMeas l m => common_err U faulty [] l = false /\ timp_line U l = Some m
    end.
  Definition t_line (x : t_item) : str := match x with TNoise l => l | TMeas l _ => l end.
  Definition t_others (xs : list t_item) : dp :=
    flat_map (fun x => match x with TMeas _ m => if is_total m then [] else [m] | TNoise _ => [] end) xs.
  Definition t_total (xs : list t_item) (t0 : option meas) : option meas :=
    fold_left (fun t x => match x with TMeas _ m => if is_total m then Some m else t | TNoise _ => t end) xs t0.

  Theorem timp_loop_exact : forall xs cur t0,
    Forall t_item_ok xs ->
    timp_loop U faulty (map t_line xs) cur t0
    = match t_total xs t0 with Some t => POk [cur ++ t_others xs ++ [t]] | None => PReject false end.
  Proof.
    induction xs as [|x xs IH]; intros cur t0 Hok.
    - reflexivity.
    - inversion Hok as [|? ? Hx Hxs]; subst. cbn [map timp_loop]. destruct x as [l|l m]; destruct Hx as [A B]; cbn [t_line]; rewrite A, B.
      + rewrite IH by assumption. reflexivity.
      + unfold t_total, t_others. cbn [fold_left flat_map]. destruct (is_total m).
        * rewrite IH by assumption. reflexivity.
        * rewrite IH by assumption. unfold t_total, t_others. destruct (fold_left _ xs t0); [|reflexivity]. rewrite <- !app_assoc. reflexivity.
  Qed.
End TimeLoop.
