(** The error check of the adapter model IS GaugeAdapter.check_for_error: the method is translated from adapter.py on every run
    (Gen/GenAdapters.v) together with the list every adapter stores in _other_error_definitions; the model's common_err and the
    lists written in Model/Adapters.v are proved equal to them, so every theorem about the parse functions is a theorem about
    loops that call the translated check with the translated lists. *)
From Coq Require Import List NArith Bool.
Import ListNotations.
From RV Require Import Lib.Str Lib.Regex Gen.GenRegex Gen.GenAdapters Model.Adapters.

Lemma check_for_error_is_common_err U f others l : gen_check_for_error U f others l = common_err U f others l.
Proof.
  unfold gen_check_for_error, common_err. destruct f; [reflexivity|].
  destruct (re_search U ga_re_error l); [reflexivity|].
  destruct (re_search U ga_re_segfault l); [reflexivity|].
  destruct (re_search U ga_re_bus_error l); [reflexivity|].
  destruct others; reflexivity.
Qed.

Lemma loop_ext (e1 e2 stop : str -> bool) (cls : str -> line_class) :
  (forall l, e1 l = e2 l) -> forall lines cur dps, loop e1 stop cls lines cur dps = loop e2 stop cls lines cur dps.
Proof.
  intros H. induction lines as [|l r IH]; intros cur dps; simpl; [reflexivity|].
  rewrite H. destruct (stop l); [reflexivity|]. destruct (e2 l); [reflexivity|].
  destruct (cls l); try reflexivity; apply IH.
Qed.

Theorem parse_functions_call_the_translated_check U f data :
  rbl_parse U f data = loop (gen_check_for_error U f rbl_error_definitions) (fun _ => false) (rbl_classify U) (split_nl data) [] []
  /\ psl_parse U f data = loop (gen_check_for_error U f psl_error_definitions) (fun _ => false) (psl_classify U) (split_nl data) [] []
  /\ val_parse U f data = loop (gen_check_for_error U f val_error_definitions) (fun _ => false) (val_classify U) (split_nl data) [] []
  /\ jmh_parse U f data = loop (gen_check_for_error U f jmh_error_definitions) (re_search U jmh_re_complete) (jmh_classify U) (split_nl data) [] []
  /\ timf_parse U f data = loop (gen_check_for_error U f tim_error_definitions) (fun _ => false) (timf_classify U) (split_nl data) [] []
  /\ sav_parse U f data = loop (gen_check_for_error U f sav_error_definitions) (fun _ => false) (sav_classify U) (split_nl data) [] [].
Proof.
  repeat split; symmetry; apply loop_ext; intros l; apply check_for_error_is_common_err.
Qed.
