(** -r, then load: what a session finds after the rewrite.  For a data file whose measurement lines come in whole
    data points (wffb), whose run records are all accepted by the loader (no_skipsb) and which loads, the rewritten
    file loads as well, with the same tables, and the data points loaded from it are exactly those of the runs that
    were NOT selected, in their order: the selected runs have no progress left, the others keep all of theirs. *)
From Coq Require Import List ZArith Bool Arith Lia.
Import ListNotations.
From RV Require Import Model.DataFile.

Definition keep (sel : nat -> bool) (dp : dpoint) : bool := negb (sel (p_run dp)).
Definition open_empty (s : lstate) : Prop := match open_dp s with Some (_, ms) => ms = [] | None => True end.

Lemma fold_crashed : forall f s, crashed s = true -> crashed (fold_left load_line f s) = true.
Proof.
  induction f as [|l f IH]; intros s H; simpl; [exact H|]. apply IH. unfold load_line. rewrite H. exact H.
Qed.

Lemma step_not_crashed : forall f s l, crashed (fold_left load_line (l :: f) s) = false -> crashed (load_line s l) = false /\ crashed s = false.
Proof.
  intros f s l H. simpl in H. split.
  - destruct (crashed (load_line s l)) eqn:E; [|reflexivity]. rewrite fold_crashed in H by exact E. discriminate.
  - destruct (crashed s) eqn:E; [|reflexivity].
    assert (crashed (load_line s l) = true) by (unfold load_line; rewrite E; exact E).
    rewrite fold_crashed in H by assumption. discriminate.
Qed.

(* the two loaders between data points *)
Record rel0 (sel : nat -> bool) (s s' : lstate) : Prop := {
  r_b : benches s' = benches s; r_r : runs s' = runs s;
  r_c : crashed s = false; r_c' : crashed s' = false;
  r_l : loaded s' = filter (keep sel) (loaded s);
  r_o : open_empty s; r_o' : open_empty s' }.

(* ... and inside a data point of run id [rid] *)
Record rel1 (sel : nat -> bool) (rid : nat) (s s' : lstate) : Prop := {
  m_b : benches s' = benches s; m_r : runs s' = runs s;
  m_c : crashed s = false; m_c' : crashed s' = false;
  m_l : loaded s' = filter (keep sel) (loaded s);
  m_o : exists ms rk, ms <> [] /\ open_dp s = Some (rid, ms) /\ nth_error (runs s) rid = Some rk /\
                      (if sel rk then open_empty s' else open_dp s' = Some (rid, ms)) }.

Definition relc (sel : nat -> bool) (cur : option (nat * nat)) (s s' : lstate) : Prop :=
  match cur with None => rel0 sel s s' | Some (rid, _) => rel1 sel rid s s' end.

Lemma cur_of_empty : forall s rid, open_empty s ->
  match open_dp s with Some (prev, ms) => if Nat.eqb prev rid then ms else [] | None => [] end = [].
Proof.
  intros s rid H. unfold open_empty in H. destruct (open_dp s) as [[prev ms]|]; [|reflexivity].
  subst ms. destruct (Nat.eqb prev rid); reflexivity.
Qed.

Lemma filter_snoc {A} (f : A -> bool) l x : filter f (l ++ [x]) = filter f l ++ (if f x then [x] else []).
Proof. rewrite filter_app. simpl. destruct (f x); reflexivity. Qed.

Lemma lockstep sel : forall f cur s s',
  relc sel cur s s' -> wffb_aux cur f = true -> no_skipsb s f = true ->
  crashed (fold_left load_line f s) = false ->
  rel0 sel (fold_left load_line f s) (fold_left load_line (rewrite_from sel (runs s) f) s').
Proof.
  induction f as [|l f IH]; intros cur s s' R W NS NC.
  - simpl in *. destruct cur as [[rid inv]|]; [discriminate | exact R].
  - destruct (step_not_crashed f s l NC) as [NC1 NC0]. cbn [fold_left] in NC.
    simpl in NS. apply andb_true_iff in NS. destruct NS as [NS1 NS].
    destruct cur as [[rid inv]|].
    + (* inside a data point: the line is a measurement of the same run and invocation *)
      destruct R as [Hb Hr Hc Hc' Hl [ms [rk [Hne [Ho [Hrk Hs']]]]]].
      destruct l as [| | | | |m| |]; simpl in W; try discriminate.
      apply andb_true_iff in W. destruct W as [W1 W]. apply andb_true_iff in W1. destruct W1 as [Wr Wi].
      apply Nat.eqb_eq in Wr. apply Nat.eqb_eq in Wi.
      assert (Hstep : load_line s (LData m) =
                if m_total m then {| benches := benches s; runs := runs s; open_dp := Some (m_rid m, []);
                                     loaded := loaded s ++ [{| p_run := rk; p_ms := ms ++ [m] |}]; crashed := false |}
                else with_open s (Some (m_rid m, ms ++ [m]))).
      { unfold load_line in NC1 |- *. rewrite Hc in *. rewrite Wr, Hrk, Ho, Nat.eqb_refl in *.
        destruct ms as [|m0 ms']; [congruence|].
        destruct (negb (Nat.eqb (m_inv m0) (m_inv m))); [simpl in NC1; discriminate|]. rewrite <- Wr. reflexivity. }
      simpl rewrite_from. rewrite Wr, Hrk. simpl fold_left.
      destruct (sel rk) eqn:Esel.
      * (* the run is selected: the line is dropped, the second loader stands still *)
        rewrite Hstep. destruct (m_total m).
        -- match goal with |- rel0 _ (fold_left _ _ ?S) _ => change (runs s) with (runs S) end. apply (IH None); [|exact W | rewrite Hstep in NS; exact NS | rewrite Hstep in NC; exact NC].
           constructor; simpl; try assumption; try reflexivity.
           rewrite filter_snoc. unfold keep at 2. simpl. rewrite Esel. simpl. rewrite app_nil_r. exact Hl.
        -- match goal with |- rel0 _ (fold_left _ _ ?S) _ => change (runs s) with (runs S) end. apply (IH (Some (rid, inv))); [|exact W | rewrite Hstep in NS; exact NS | rewrite Hstep in NC; exact NC].
           constructor; simpl; try assumption.
           exists (ms ++ [m]), rk. rewrite Wr. repeat split; try assumption; [destruct ms; discriminate | rewrite Esel; exact Hs'].
      * (* not selected: both loaders take the line *)
        assert (Hstep' : load_line s' (LData m) =
                  if m_total m then {| benches := benches s'; runs := runs s'; open_dp := Some (m_rid m, []);
                                       loaded := loaded s' ++ [{| p_run := rk; p_ms := ms ++ [m] |}]; crashed := false |}
                  else with_open s' (Some (m_rid m, ms ++ [m]))).
        { unfold load_line in NC1 |- *. rewrite Hc in NC1. rewrite Hc'. rewrite Wr, Hr, Hrk, Hs', Nat.eqb_refl in *. rewrite Ho in NC1.
          rewrite Nat.eqb_refl in NC1.
          destruct ms as [|m0 ms']; [congruence|].
          destruct (negb (Nat.eqb (m_inv m0) (m_inv m))); [simpl in NC1; discriminate|]. rewrite <- Wr. reflexivity. }
        cbn [fold_left]. rewrite Hstep, Hstep'. destruct (m_total m).
        -- match goal with |- rel0 _ (fold_left _ _ ?S) _ => change (runs s) with (runs S) end. apply (IH None); [|exact W | rewrite Hstep in NS; exact NS | rewrite Hstep in NC; exact NC].
           constructor; simpl; try assumption; try reflexivity.
           rewrite filter_snoc. unfold keep at 2. simpl. rewrite Esel. simpl. rewrite Hl. reflexivity.
        -- match goal with |- rel0 _ (fold_left _ _ ?S) _ => change (runs s) with (runs S) end. apply (IH (Some (rid, inv))); [|exact W | rewrite Hstep in NS; exact NS | rewrite Hstep in NC; exact NC].
           constructor; simpl; try assumption.
           exists (ms ++ [m]), rk. rewrite Wr. repeat split; try assumption; [destruct ms; discriminate | rewrite Esel; reflexivity].
    + (* between data points *)
      destruct R as [Hb Hr Hc Hc' Hl Ho Ho'].
      destruct l as [|id key|id bid key| | |m| |].
      * (* comment *) simpl in W. simpl. unfold load_line at 2 4. rewrite Hc, Hc'.
        match goal with |- rel0 _ (fold_left _ _ ?S) _ => change (runs s) with (runs S) end. apply (IH None); [|exact W | simpl in NS; unfold load_line in NS; rewrite Hc in NS; exact NS
                          | unfold load_line in NC at 2; rewrite Hc in NC; exact NC].
        constructor; simpl; assumption || exact I.
      * (* benchmark record *) simpl in W. simpl.
        unfold load_line in NC1. rewrite Hc in NC1.
        unfold load_line at 2 4. rewrite Hc, Hc', Hb.
        destruct (existsb (Nat.eqb key) (benches s) || negb (Nat.eqb (length (benches s)) id)) eqn:E; [simpl in NC1; discriminate|].
        match goal with |- rel0 _ (fold_left _ _ ?S) _ => change (runs s) with (runs S) end. apply (IH None); [|exact W | unfold load_line in NS; rewrite Hc, E in NS; exact NS
                          | unfold load_line in NC at 2; rewrite Hc, E in NC; exact NC].
        constructor; simpl; try assumption; try reflexivity; try exact I; try (rewrite Hb; reflexivity).
      * (* run record: accepted *) simpl in W. simpl.
        apply Nat.ltb_lt in NS1.
        unfold load_line in NC1. rewrite Hc in NC1.
        unfold load_line at 2 4. rewrite Hc, Hc', Hb, Hr.
        destruct (Nat.leb_spec (length (benches s)) bid) as [Hle|_]; [lia|].
        destruct (negb (Nat.eqb (length (runs s)) id)) eqn:E; [simpl in NC1; discriminate|].
        match goal with |- rel0 _ (fold_left _ _ ?S) _ => change (runs s ++ [key]) with (runs S) end. apply (IH None); [|exact W | |].
        -- constructor; simpl; try assumption; try reflexivity; try exact I; try (rewrite Hr; reflexivity).
        -- unfold load_line in NS. rewrite Hc in NS. destruct (Nat.leb_spec (length (benches s)) bid) as [Hle|_]; [lia|]. rewrite E in NS. exact NS.
        -- unfold load_line in NC at 2. rewrite Hc in NC. destruct (Nat.leb_spec (length (benches s)) bid) as [Hle|_]; [lia|]. rewrite E in NC. exact NC.
      * (* unreadable record *) simpl in W. simpl. unfold load_line at 2 4. rewrite Hc, Hc'.
        match goal with |- rel0 _ (fold_left _ _ ?S) _ => change (runs s) with (runs S) end. apply (IH None); [|exact W | simpl in NS; unfold load_line in NS; rewrite Hc in NS; exact NS
                          | unfold load_line in NC at 2; rewrite Hc in NC; exact NC].
        constructor; simpl; assumption || exact I.
      * (* header *) simpl in W. simpl. unfold load_line at 2 4. rewrite Hc, Hc'.
        match goal with |- rel0 _ (fold_left _ _ ?S) _ => change (runs s) with (runs S) end. apply (IH None); [|exact W | simpl in NS; unfold load_line in NS; rewrite Hc in NS; exact NS
                          | unfold load_line in NC at 2; rewrite Hc in NC; exact NC].
        constructor; assumption.
      * (* first line of a data point *)
        simpl in W. unfold load_line in NC1. rewrite Hc in NC1.
        destruct (nth_error (runs s) (m_rid m)) as [rk|] eqn:Hrk; [|simpl in NC1; discriminate].
        pose proof (cur_of_empty s (m_rid m) Ho) as Hcur. pose proof (cur_of_empty s' (m_rid m) Ho') as Hcur'.
        assert (Hstep : load_line s (LData m) =
                  if m_total m then {| benches := benches s; runs := runs s; open_dp := Some (m_rid m, []);
                                       loaded := loaded s ++ [{| p_run := rk; p_ms := [m] |}]; crashed := false |}
                  else with_open s (Some (m_rid m, [m]))).
        { unfold load_line. rewrite Hc, Hrk, Hcur. reflexivity. }
        assert (Hstep' : load_line s' (LData m) =
                  if m_total m then {| benches := benches s'; runs := runs s'; open_dp := Some (m_rid m, []);
                                       loaded := loaded s' ++ [{| p_run := rk; p_ms := [m] |}]; crashed := false |}
                  else with_open s' (Some (m_rid m, [m]))).
        { unfold load_line. rewrite Hc', Hr, Hrk, Hcur'. reflexivity. }
        simpl rewrite_from. rewrite Hrk. simpl fold_left. rewrite Hstep in *.
        destruct (sel rk) eqn:Esel.
        -- destruct (m_total m).
           ++ match goal with |- rel0 _ (fold_left _ _ ?S) _ => change (runs s) with (runs S) end. apply (IH None); [|exact W | exact NS | exact NC].
              constructor; simpl; try assumption; try reflexivity.
              rewrite filter_snoc. unfold keep at 2. simpl. rewrite Esel. simpl. rewrite app_nil_r. exact Hl.
           ++ match goal with |- rel0 _ (fold_left _ _ ?S) _ => change (runs s) with (runs S) end. apply (IH (Some (m_rid m, m_inv m))); [|exact W | exact NS | exact NC].
              constructor; simpl; try assumption.
              exists [m], rk. repeat split; try assumption; [discriminate | rewrite Esel; exact Ho'].
        -- simpl fold_left. rewrite Hstep'. destruct (m_total m).
           ++ match goal with |- rel0 _ (fold_left _ _ ?S) _ => change (runs s) with (runs S) end. apply (IH None); [|exact W | exact NS | exact NC].
              constructor; simpl; try assumption; try reflexivity.
              rewrite filter_snoc. unfold keep at 2. simpl. rewrite Esel. simpl. rewrite Hl. reflexivity.
           ++ match goal with |- rel0 _ (fold_left _ _ ?S) _ => change (runs s) with (runs S) end. apply (IH (Some (m_rid m, m_inv m))); [|exact W | exact NS | exact NC].
              constructor; simpl; try assumption.
              exists [m], rk. repeat split; try assumption; [discriminate | rewrite Esel; reflexivity].
      * (* garbage *) simpl in W. simpl. unfold load_line at 2 4. rewrite Hc, Hc'.
        match goal with |- rel0 _ (fold_left _ _ ?S) _ => change (runs s) with (runs S) end. apply (IH None); [|exact W | simpl in NS; unfold load_line in NS; rewrite Hc in NS; exact NS
                          | unfold load_line in NC at 2; rewrite Hc in NC; exact NC].
        constructor; assumption.
      * (* incomplete last line *) simpl in W. simpl. unfold load_line at 2 4. rewrite Hc, Hc'.
        match goal with |- rel0 _ (fold_left _ _ ?S) _ => change (runs s) with (runs S) end. apply (IH None); [|exact W | simpl in NS; unfold load_line in NS; rewrite Hc in NS; exact NS
                          | unfold load_line in NC at 2; rewrite Hc in NC; exact NC].
        constructor; assumption.
Qed.

Theorem rewrite_then_load : forall sel f,
  wffb f = true -> no_skipsb ls_init f = true -> crashed (load f) = false ->
  crashed (load (rewrite sel f)) = false
  /\ loaded (load (rewrite sel f)) = filter (keep sel) (loaded (load f))
  /\ benches (load (rewrite sel f)) = benches (load f) /\ runs (load (rewrite sel f)) = runs (load f).
Proof.
  intros sel f W NS NC.
  assert (R : rel0 sel ls_init ls_init) by (constructor; simpl; reflexivity || exact I).
  destruct (lockstep sel f None ls_init ls_init R W NS NC) as [Hb Hr _ Hc Hl _ _].
  unfold load, rewrite. simpl in *. repeat split; assumption.
Qed.
