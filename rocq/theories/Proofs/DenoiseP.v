(** Proofs about M-Denoise: restore exactly once at the end; the wrapper; the shield range over R. *)
From Coq Require Import List ZArith Bool Arith Lia Reals Lra.
From Interval Require Import Tactic.
Import ListNotations.
From RV Require Import Lib.Str Gen.GenFactsSession Model.Denoise.

Definition is_restore (d : dev) : bool := match d with DRestore _ _ => true | _ => false end.

Lemma count_restore_starts l : length (filter is_restore (map DStart l)) = 0%nat.
Proof. induction l; simpl; auto. Qed.

Theorem restore_once r prof starts e :
  all_failed r = false ->
  exists pre a b, session_events true r prof starts e = DMinimize prof :: pre ++ [DRestore a b]
                  /\ pre = map DStart starts
                  /\ a = negb (use_shield r) /\ b = negb (use_nice r).
Proof.
  intro H. unfold session_events, reaches_restore. rewrite H.
  assert (R : restore_in_finally = true) by reflexivity. rewrite R. simpl.
  eexists _, _, _. repeat split; reflexivity.
Qed.

Theorem restore_exactly_one r prof starts e :
  all_failed r = false -> length (filter is_restore (session_events true r prof starts e)) = 1%nat.
Proof.
  intro H. destruct (restore_once r prof starts e H) as [pre [a [b [E [P _]]]]]. rewrite E, P. simpl.
  rewrite filter_app, app_length, count_restore_starts. reflexivity.
Qed.

Theorem no_denoise_no_events r prof starts e :
  session_events false r prof starts e = map DStart starts.
Proof. reflexivity. Qed.

Lemma changed_not_all_failed r : changed_something r = true -> all_failed r = false.
Proof.
  unfold changed_something, all_failed. destruct (values r) as [|v vs] eqn:E; [reflexivity|].
  intro H. apply existsb_exists in H. destruct H as [x [Hx Hv]]. destruct x; try discriminate.
  destruct (forallb _ (v :: vs)) eqn:F; [|reflexivity].
  rewrite forallb_forall in F. specialize (F _ Hx). discriminate.
Qed.

(** the wrapper *)
Ltac in_cases := repeat match goal with
  | [ H : In _ (_ ++ _) |- _ ] => apply in_app_or in H; destruct H as [H|H]
  | [ H : In _ (_ :: _) |- _ ] => destruct H as [H|H]; [try discriminate|]
  | [ H : In _ [] |- _ ] => destruct H
  | [ H : In _ (if ?b then _ else _) |- _ ] => destruct b
  | [ H : In _ (match ?k with [] => _ | _ :: _ => _ end) |- _ ] => destruct k
  end.

Lemma wrapper_none nice shield prof cset keys n :
  wrapper nice shield prof cset keys n = [] <-> nice = false /\ shield = false.
Proof. unfold wrapper. destruct nice, shield; simpl; split; intro H; try discriminate; auto; destruct H; discriminate. Qed.

Lemma wrapper_without_nice nice shield prof cset keys n :
  nice || shield = true -> (In TWithoutNice (wrapper nice shield prof cset keys n) <-> nice = false).
Proof.
  intro H. unfold wrapper. rewrite H. split.
  - intro I. destruct nice; [|reflexivity]. exfalso. in_cases; discriminate.
  - intro E. subst nice. rewrite !in_app_iff. simpl. tauto.
Qed.

Lemma wrapper_without_shielding nice shield prof cset keys n :
  nice || shield = true -> (In TWithoutShielding (wrapper nice shield prof cset keys n) <-> shield = false).
Proof.
  intro H. unfold wrapper. rewrite H. split.
  - intro I. destruct shield; [|reflexivity]. exfalso. in_cases; discriminate.
  - intro E. subst shield. rewrite !in_app_iff. simpl. tauto.
Qed.

Lemma wrapper_for_profiling nice shield prof cset keys n :
  nice || shield = true -> (In TForProfiling (wrapper nice shield prof cset keys n) <-> prof = true).
Proof.
  intro H. unfold wrapper. rewrite H. split.
  - intro I. destruct prof; [reflexivity|]. exfalso. in_cases; discriminate.
  - intro E. subst prof. rewrite !in_app_iff. simpl. tauto.
Qed.

Lemma wrapper_preserve_env nice shield prof cset keys n ks :
  nice || shield = true ->
  (In (TPreserveEnv ks) (wrapper nice shield prof cset keys n) <-> ks = keys /\ keys <> []).
Proof.
  intro H. unfold wrapper. rewrite H. split.
  - intro I. in_cases; try discriminate; try (inversion I; subst; split; [reflexivity|discriminate]).
  - intros [E N]. subst ks. destruct keys as [|k r]; [contradiction|]. rewrite !in_app_iff. simpl. tauto.
Qed.

Lemma wrapper_frame nice shield prof cset keys n :
  nice || shield = true ->
  let w := wrapper nice shield prof cset keys n in
  hd_error w = Some TSudo /\ In TDenoise w /\ In (TNumCores n) w /\ last w TSudo = TExec.
Proof.
  intro H. unfold wrapper. rewrite H. simpl. repeat split.
  - destruct keys; simpl; auto.
  - destruct keys, nice, shield, cset, prof; simpl; auto 10.
  - destruct keys, nice, shield, cset, prof; reflexivity.
Qed.

(** the shield range over the reals: 0 <= floor (ln n) <= n - 1 for every n >= 1 *)
Local Open Scope R_scope.

Lemma ln_mono x y : 0 < x -> x <= y -> ln x <= ln y.
Proof. intros H [L|E]; [left; apply ln_increasing; assumption | subst; right; reflexivity]. Qed.

Lemma ln_le_minus_one x : 0 < x -> ln x <= x - 1.
Proof.
  intro H. pose proof (exp_ineq1_le (x - 1)) as I.
  rewrite <- (ln_exp (x - 1)). apply ln_mono; [exact H | lra].
Qed.

Lemma Int_part_bounds r (lo hi : Z) : IZR lo <= r -> r <= IZR hi -> (lo <= Int_part r <= hi)%Z.
Proof.
  intros L H. destruct (base_Int_part r) as [A B]. split.
  - assert (X : IZR lo - 1 < IZR (Int_part r)) by lra. rewrite <- minus_IZR in X. apply lt_IZR in X. lia.
  - apply le_IZR. lra.
Qed.

(* 0 <= floor (ln n) <= n - 1 *)
Theorem shield_range_real (n : Z) :
  (1 <= n)%Z -> (0 <= Int_part (ln (IZR n)) <= n - 1)%Z.
Proof.
  intro H. assert (P : 1 <= IZR n) by (apply IZR_le; exact H).
  apply Int_part_bounds.
  - rewrite <- ln_1. apply ln_mono; lra.
  - rewrite minus_IZR. apply ln_le_minus_one. lra.
Qed.

(* an integer interval on which floor (ln n) is constant *)
Lemma floor_ln_between (k a b n : Z) :
  IZR k <= ln (IZR a) -> ln (IZR b) < IZR k + 1 -> (0 < a)%Z -> (a <= n <= b)%Z -> Int_part (ln (IZR n)) = k.
Proof.
  intros L U Ha [H1 H2].
  assert (Pa : 0 < IZR a) by (apply IZR_lt; exact Ha).
  assert (A : ln (IZR a) <= ln (IZR n)) by (apply ln_mono; [exact Pa | apply IZR_le; exact H1]).
  assert (B : ln (IZR n) <= ln (IZR b)) by (apply ln_mono; [apply Rlt_le_trans with (IZR a); [exact Pa | apply IZR_le; exact H1] | apply IZR_le; exact H2]).
  destruct (base_Int_part (ln (IZR n))) as [X Y].
  assert (G1 : (k - 1 < Int_part (ln (IZR n)))%Z) by (apply lt_IZR; rewrite minus_IZR; lra).
  assert (G2 : (Int_part (ln (IZR n)) < k + 1)%Z) by (apply lt_IZR; rewrite plus_IZR; lra).
  lia.
Qed.

Lemma count_le_mono (l : list Z) (n m : Z) :
  (n <= m)%Z -> (length (filter (fun t => Z.leb t n) l) <= length (filter (fun t => Z.leb t m) l))%nat.
Proof.
  intro H. induction l as [|t l IH]; [apply le_n|]. simpl.
  destruct (Z.leb_spec t n); destruct (Z.leb_spec t m); simpl; lia.
Qed.

Lemma floor_ln_const (lo hi n : Z) :
  (lo <= n <= hi)%Z -> floor_ln lo = floor_ln hi -> floor_ln n = floor_ln lo.
Proof.
  intros [A B] E. unfold floor_ln in *.
  pose proof (count_le_mono thresholds lo n A). pose proof (count_le_mono thresholds n hi B). lia.
Qed.

(** the executable floor_ln is floor (ln n) for every core count below 8104 *)
Theorem floor_ln_correct (n : Z) :
  (1 <= n < 8104)%Z -> Int_part (ln (IZR n)) = floor_ln n.
Proof.
  intros [H1 H2].
  assert (C : (n <= 2 \/ 3 <= n <= 7 \/ 8 <= n <= 20 \/ 21 <= n <= 54 \/ 55 <= n <= 148 \/ 149 <= n <= 403
               \/ 404 <= n <= 1096 \/ 1097 <= n <= 2980 \/ 2981 <= n <= 8103)%Z) by lia.
  destruct C as [C|[C|[C|[C|[C|[C|[C|[C|C]]]]]]]].
  - rewrite (floor_ln_const 1 2 n) by (try lia; reflexivity). apply (floor_ln_between 0 1 2); try lia; interval.
  - rewrite (floor_ln_const 3 7 n) by (try lia; reflexivity). apply (floor_ln_between 1 3 7); try lia; interval.
  - rewrite (floor_ln_const 8 20 n) by (try lia; reflexivity). apply (floor_ln_between 2 8 20); try lia; interval.
  - rewrite (floor_ln_const 21 54 n) by (try lia; reflexivity). apply (floor_ln_between 3 21 54); try lia; interval.
  - rewrite (floor_ln_const 55 148 n) by (try lia; reflexivity). apply (floor_ln_between 4 55 148); try lia; interval.
  - rewrite (floor_ln_const 149 403 n) by (try lia; reflexivity). apply (floor_ln_between 5 149 403); try lia; interval.
  - rewrite (floor_ln_const 404 1096 n) by (try lia; reflexivity). apply (floor_ln_between 6 404 1096); try lia; interval.
  - rewrite (floor_ln_const 1097 2980 n) by (try lia; reflexivity). apply (floor_ln_between 7 1097 2980); try lia; interval.
  - rewrite (floor_ln_const 2981 8103 n) by (try lia; reflexivity). apply (floor_ln_between 8 2981 8103); try lia; interval.
Qed.
