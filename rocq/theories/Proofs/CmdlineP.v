(** Proofs about M-Cmd: the tokenizer inverts rendering; one pass is the declarative
    substitution; the two formatting passes of run_id.py (with the strip in between) equal one pass. *)
From Coq Require Import List ZArith NArith Bool Lia DecimalPos.
Import ListNotations.
From RV Require Import Lib.Str Model.Cmdline.
Local Open Scope N_scope.

(** ** well-formed templates, as lists of pieces *)
Definition key_ok (k : str) : Prop := ~ In c_pct k /\ ~ In c_lpar k /\ ~ In c_rpar k.

Definition render_item (it : item) : str :=
  match it with
  | ILit c => [c]
  | IPct => [c_pct; c_pct]
  | IPh k (Some c) => c_pct :: c_lpar :: k ++ [c_rpar; c]
  | IPh k None => c_pct :: c_lpar :: k ++ [c_rpar]
  | INoKey c => [c_pct; c]
  | IBad _ => []
  end.
Definition render (its : list item) : str := flat_map render_item its.

(* the shapes of a template piece: a literal character other than %, %%, or %(key)c *)
Definition wf_item (it : item) : Prop :=
  match it with
  | ILit c => c <> c_pct
  | IPct => True
  | IPh k (Some c) => key_ok k /\ c <> c_pct
  | _ => False
  end.

Lemma tok_key : forall k acc d s,
  ~ In c_lpar k -> ~ In c_rpar k ->
  tokenize_from (TKey d acc) (k ++ s) = tokenize_from (TKey d (rev k ++ acc)) s.
Proof.
  induction k as [|c k IH]; intros acc d s Hl Hr; simpl; [reflexivity|].
  assert (c <> c_rpar) by (intro; subst; apply Hr; left; reflexivity).
  assert (c <> c_lpar) by (intro; subst; apply Hl; left; reflexivity).
  destruct (N.eqb_spec c c_rpar); [contradiction|].
  destruct (N.eqb_spec c c_lpar); [contradiction|].
  rewrite IH; [| intro; apply Hl; right; assumption | intro; apply Hr; right; assumption].
  rewrite <- app_assoc. reflexivity.
Qed.

Lemma tokenize_render_app : forall its s,
  Forall wf_item its -> tokenize_from TLit (render its ++ s) = its ++ tokenize_from TLit s.
Proof.
  induction its as [|it its IH]; intros s Hwf; [reflexivity|].
  inversion Hwf as [|? ? Hit Hrest]; subst.
  unfold render; simpl flat_map. rewrite <- app_assoc. fold (render its).
  destruct it as [c| |k [c|]|c|r]; simpl in Hit; try contradiction.
  - simpl. destruct (N.eqb_spec c c_pct); [contradiction|]. rewrite IH by assumption. reflexivity.
  - simpl. rewrite IH by assumption. reflexivity.
  - destruct Hit as [[Hp [Hl Hr]] Hc].
    simpl. rewrite <- app_assoc. rewrite tok_key by assumption. simpl.
    rewrite app_nil_r, rev_involutive. rewrite IH by assumption. reflexivity.
Qed.

Lemma tokenize_render : forall its, Forall wf_item its -> tokenize (render its) = its.
Proof.
  intros its H. unfold tokenize. rewrite <- (app_nil_r (render its)).
  rewrite tokenize_render_app by assumption. simpl. apply app_nil_r.
Qed.

(** ** substitution of well-formed pieces *)
Definition item_out (m : fmap) (it : item) : option str :=
  match it with
  | ILit c => Some [c]
  | IPct => Some [c_pct]
  | IPh k (Some c) =>
      match lookup k m with
      | Some v => match convert c v with FOk s => Some s | _ => None end
      | None => None
      end
  | _ => None
  end.

Fixpoint outs (m : fmap) (its : list item) : option str :=
  match its with
  | [] => Some []
  | it :: r => match item_out m it, outs m r with Some a, Some b => Some (a ++ b) | _, _ => None end
  end.

Lemma subst_outs : forall its m seen s, outs m its = Some s -> subst_from seen its m = FOk s.
Proof.
  induction its as [|it its IH]; intros m seen s H; simpl in *.
  - inversion H; reflexivity.
  - destruct (item_out m it) as [a|] eqn:Ha; [|discriminate].
    destruct (outs m its) as [b|] eqn:Hb; [|discriminate]. inversion H; subst.
    destruct it as [c| |k [c|]|c|r]; simpl in Ha; try discriminate.
    + inversion Ha; subst. rewrite (IH m seen b) by exact Hb. reflexivity.
    + inversion Ha; subst. rewrite (IH m seen b) by exact Hb. reflexivity.
    + destruct (lookup k m) as [v|]; [|discriminate].
      destruct (convert c v) eqn:Hc; try discriminate. inversion Ha; subst.
      rewrite (IH m true b) by exact Hb. reflexivity.
Qed.

(** one formatting pass over a well-formed template is the piecewise substitution *)
Lemma pyformat_render : forall its m s,
  Forall wf_item its -> outs m its = Some s -> pyformat (render its) m = FOk s.
Proof.
  intros. unfold pyformat. rewrite tokenize_render by assumption. apply subst_outs. assumption.
Qed.

(** ** the first pass of _construct_cmdline *)
Lemma dbl_lit : forall c s, c <> c_pct -> double_pctpct (c :: s) = c :: double_pctpct s.
Proof.
  intros c s H. destruct s as [|b s]; simpl; [reflexivity|].
  destruct (N.eqb_spec c c_pct); [contradiction|]. reflexivity.
Qed.
Lemma dbl_pct_other : forall c s, c <> c_pct -> double_pctpct (c_pct :: c :: s) = c_pct :: double_pctpct (c :: s).
Proof.
  intros c s H. cbn [double_pctpct]. rewrite N.eqb_refl.
  destruct (N.eqb_spec c c_pct); [contradiction|]. reflexivity.
Qed.
Lemma dbl_pctpct : forall s, double_pctpct (c_pct :: c_pct :: s) = c_pct :: c_pct :: c_pct :: c_pct :: double_pctpct s.
Proof. intros. cbn [double_pctpct]. rewrite N.eqb_refl. reflexivity. Qed.

Lemma dbl_nopct : forall k s, ~ In c_pct k -> double_pctpct (k ++ s) = k ++ double_pctpct s.
Proof.
  induction k as [|c k IH]; intros s H; [reflexivity|].
  simpl app. rewrite dbl_lit by (intro; subst; apply H; left; reflexivity).
  rewrite IH by (intro; apply H; right; assumption). reflexivity.
Qed.

Definition dbl_item (it : item) : list item := match it with IPct => [IPct; IPct] | x => [x] end.
Definition dbl (its : list item) : list item := flat_map dbl_item its.

Lemma render_cons : forall it its, render (it :: its) = render_item it ++ render its.
Proof. reflexivity. Qed.
Lemma render_app : forall a b, render (a ++ b) = render a ++ render b.
Proof. intros. unfold render. apply flat_map_app. Qed.

Local Arguments double_pctpct : simpl never.

Lemma double_render_app : forall its s,
  Forall wf_item its ->
  double_pctpct (render its ++ s) = render (dbl its) ++ double_pctpct s.
Proof.
  induction its as [|it its IH]; intros s Hwf; [reflexivity|].
  inversion Hwf as [|? ? Hit Hrest]; subst.
  change (dbl (it :: its)) with (dbl_item it ++ dbl its).
  rewrite render_cons, render_app, <- !app_assoc.
  destruct it as [c| |k [c|]|c|r]; simpl in Hit; try contradiction.
  - simpl. rewrite dbl_lit by assumption. rewrite IH by assumption. reflexivity.
  - simpl. rewrite dbl_pctpct. rewrite IH by assumption. reflexivity.
  - destruct Hit as [[Hp [Hl Hr]] Hc]. simpl.
    rewrite <- !app_assoc. simpl.
    rewrite dbl_pct_other by (unfold c_lpar, c_pct; discriminate).
    rewrite dbl_lit by (unfold c_lpar, c_pct; discriminate).
    rewrite dbl_nopct by assumption.
    rewrite dbl_lit by (unfold c_rpar, c_pct; discriminate).
    rewrite dbl_lit by assumption.
    rewrite IH by assumption. reflexivity.
Qed.

Lemma wf_dbl : forall its, Forall wf_item its -> Forall wf_item (dbl its).
Proof.
  induction its as [|it its IH]; intros H; [constructor|].
  inversion H; subst. unfold dbl; simpl. fold (dbl its).
  apply Forall_app; split; [|apply IH; assumption].
  destruct it as [c| |k [c|]|c|r]; simpl in *; try contradiction;
    repeat (apply Forall_cons || apply Forall_nil); simpl; auto.
Qed.

Lemma outs_app : forall m a b sa sb, outs m a = Some sa -> outs m b = Some sb -> outs m (a ++ b) = Some (sa ++ sb).
Proof.
  induction a as [|it a IH]; intros b sa sb Ha Hb; simpl in *.
  - inversion Ha; subst. assumption.
  - destruct (item_out m it) as [x|]; [|discriminate].
    destruct (outs m a) as [y|] eqn:Hy; [|discriminate]. inversion Ha; subst.
    rewrite (IH b y sb eq_refl Hb). rewrite app_assoc. reflexivity.
Qed.

(** pieces that a value turns into inside the format string kept for the second pass *)
Definition lit_item (c : ch) : item := if c =? c_pct then IPct else ILit c.
Definition lits (s : str) : list item := map lit_item s.

Lemma render_lits : forall s, render (lits s) = esc_pct s.
Proof.
  induction s as [|c s IH]; [reflexivity|].
  unfold lits, render in *; simpl. unfold lit_item at 1. destruct (N.eqb_spec c c_pct); simpl; rewrite IH; reflexivity.
Qed.

Lemma wf_lits : forall s, Forall wf_item (lits s).
Proof.
  induction s as [|c s IH]; [constructor|]. unfold lits; simpl. constructor; [|exact IH].
  unfold lit_item. destruct (N.eqb_spec c c_pct); simpl; auto.
Qed.

Lemma outs_lits : forall m s, outs m (lits s) = Some s.
Proof.
  induction s as [|c s IH]; [reflexivity|]. unfold lits in *; simpl. rewrite IH.
  unfold lit_item. destruct (N.eqb_spec c c_pct); simpl; subst; reflexivity.
Qed.

(** ** what a template piece contributes, per pass *)
Definition conv_s : ch := 115.  Definition conv_d : ch := 100.

(* admissible pieces of a command template, relative to the values [m] (which do not define
   "invocation"): literals, %%, %(invocation)s, %(k)s with k defined, %(k)d with k an integer *)
Definition piece_ok (m : fmap) (it : item) : Prop :=
  match it with
  | ILit c => c <> c_pct
  | IPct => True
  | IPh k (Some c) =>
      key_ok k /\
      ((k = k_invocation /\ c = conv_s)
       \/ (k <> k_invocation /\ ((c = conv_s /\ exists v, lookup k m = Some v)
                                 \/ (c = conv_d /\ exists z, lookup k m = Some (PI z)))))
  | _ => False
  end.

(* the final text of a piece: the declarative substitution *)
Definition piece_text (m : fmap) (n : Z) (it : item) : str :=
  match it with
  | ILit c => [c]
  | IPct => [c_pct]
  | IPh k _ => if str_eqb k k_invocation then Z_dec n
               else match lookup k m with Some v => pyv_str v | None => [] end
  | _ => []
  end.
Definition spec_text (m : fmap) (n : Z) (its : list item) : str := flat_map (piece_text m n) its.

(* the pieces of the format string after the first pass *)
Definition piece_phase1 (m : fmap) (it : item) : list item :=
  match it with
  | ILit c => [ILit c]
  | IPct => [IPct]
  | IPh k oc => if str_eqb k k_invocation then [IPh k_invocation (Some conv_s)]
                else match lookup k m with Some v => lits (pyv_str v) | None => [] end
  | _ => []
  end.
Definition phase1_items (m : fmap) (its : list item) : list item := flat_map (piece_phase1 m) its.

Lemma piece_ok_wf : forall m it, piece_ok m it -> wf_item it.
Proof.
  intros m [c| |k [c|]|c|r]; simpl; auto.
  intros [Hk [[_ Hc]|[_ [[Hc _]|[Hc _]]]]]; split; auto; subst; unfold conv_s, conv_d, c_pct; discriminate.
Qed.

Definition esc_map (m : fmap) : fmap := map (fun kv => (fst kv, esc_val (snd kv))) m.
Definition m1 (m : fmap) : fmap := (k_invocation, PS ph_invocation) :: esc_map m.

Lemma lookup_esc : forall k m, lookup k (esc_map m) = option_map esc_val (lookup k m).
Proof.
  induction m as [|[k' v] m IH]; [reflexivity|]. simpl. destruct (str_eqb k k'); [reflexivity|exact IH].
Qed.

Lemma esc_pct_nopct : forall s, ~ In c_pct s -> esc_pct s = s.
Proof.
  induction s as [|c s IH]; intros H; [reflexivity|]. simpl.
  destruct (N.eqb_spec c c_pct); [subst; exfalso; apply H; left; reflexivity|].
  rewrite IH; [reflexivity|]. intro; apply H; right; assumption.
Qed.

Lemma uint_str_digits : forall u c, In c (uint_str u) -> 48 <= c <= 57.
Proof.
  induction u; simpl; intros c H; try contradiction;
    (destruct H as [H|H]; [subst; lia | apply IHu; assumption]).
Qed.
Lemma N_dec_digits : forall n c, In c (N_dec n) -> 48 <= c <= 57.
Proof.
  intros n c. unfold N_dec. destruct n; [simpl; intros [H|[]]; subst; lia|]. apply uint_str_digits.
Qed.
Lemma Z_dec_chars : forall z c, In c (Z_dec z) -> c = 45 \/ 48 <= c <= 57.
Proof.
  intros z c. destruct z; simpl.
  - intros [H|[]]; subst; right; lia.
  - intro H. right. apply (N_dec_digits (Npos p)). exact H.
  - intros [H|H]; [left; auto|]. right. apply (N_dec_digits (Npos p)). exact H.
Qed.
Lemma Z_dec_nopct : forall z, ~ In c_pct (Z_dec z).
Proof. intros z H. apply Z_dec_chars in H. unfold c_pct in H. lia. Qed.

Lemma uint_str_nonempty : forall p, uint_str (Pos.to_uint p) <> [].
Proof.
  intros p H.
  pose proof (Unsigned.to_uint_nonnil p) as Hn.
  destruct (Pos.to_uint p); simpl in H; try discriminate. apply Hn; reflexivity.
Qed.
Lemma Z_dec_nonempty : forall z, Z_dec z <> [].
Proof.
  destruct z; simpl; try discriminate. unfold N_dec. simpl. apply uint_str_nonempty.
Qed.

Lemma item_out_phase1 : forall m it, piece_ok m it ->
  outs (m1 m) (dbl_item it) = Some (render (piece_phase1 m it)).
Proof.
  intros m [c| |k [c|]|c|r] H; simpl in H; try contradiction.
  - reflexivity.
  - reflexivity.
  - destruct H as [Hk [[Hki Hc]|[Hki [[Hc [v Hv]]|[Hc [z Hz]]]]]]; subst.
    + simpl. reflexivity.
    + simpl dbl_item. unfold outs, item_out. unfold m1. simpl lookup.
      destruct (str_eqb k k_invocation) eqn:E; [apply str_eqb_eq in E; contradiction|].
      rewrite lookup_esc, Hv. simpl option_map.
      unfold piece_phase1. rewrite E, Hv. rewrite render_lits.
      destruct v as [s|z]; simpl; rewrite ?app_nil_r; [reflexivity|].
      rewrite esc_pct_nopct by apply Z_dec_nopct. reflexivity.
    + simpl dbl_item. unfold outs, item_out. unfold m1. simpl lookup.
      destruct (str_eqb k k_invocation) eqn:E; [apply str_eqb_eq in E; contradiction|].
      rewrite lookup_esc, Hz. simpl option_map.
      unfold piece_phase1. rewrite E, Hz. rewrite render_lits. simpl. rewrite app_nil_r.
      rewrite esc_pct_nopct by apply Z_dec_nopct. reflexivity.
Qed.

Lemma outs_phase1 : forall m its, Forall (piece_ok m) its ->
  outs (m1 m) (dbl its) = Some (render (phase1_items m its)).
Proof.
  induction its as [|it its IH]; intros H; [reflexivity|].
  inversion H; subst. unfold dbl, phase1_items; simpl flat_map. fold (dbl its). fold (phase1_items m its).
  unfold render. rewrite flat_map_app. fold (render (piece_phase1 m it)). fold (render (phase1_items m its)).
  apply outs_app; [apply item_out_phase1; assumption | apply IH; assumption].
Qed.

(** the first pass turns a well-formed template into the rendering of its phase-1 pieces *)
Lemma phase1_correct : forall m its, Forall (piece_ok m) its ->
  expand_vars_fmt (render its) m = FOk (render (phase1_items m its)).
Proof.
  intros m its H. unfold expand_vars_fmt. fold (esc_map m). fold (m1 m).
  assert (Hwf : Forall wf_item its) by (eapply Forall_impl; [apply piece_ok_wf | exact H]).
  rewrite <- (app_nil_r (render its)). rewrite double_render_app by assumption. change (double_pctpct []) with (@nil ch). rewrite app_nil_r.
  apply pyformat_render; [apply wf_dbl; assumption | apply outs_phase1; assumption].
Qed.

(** ** stripping commutes with rendering *)
Definition space_lit (it : item) : bool := match it with ILit c => py_space c | _ => false end.
Fixpoint ltrim (its : list item) : list item :=
  match its with it :: r => if space_lit it then ltrim r else its | [] => [] end.
Definition trim (its : list item) : list item := rev (ltrim (rev (ltrim its))).

Section Strip.
  Variable f : item -> str.
  Variable P : item -> Prop.
  Hypothesis f_lit : forall c, f (ILit c) = [c].
  Hypothesis f_head : forall it, P it -> space_lit it = false ->
    exists a t, f it = a :: t /\ py_space a = false.

  Lemma lstrip_flat : forall its, Forall P its -> lstrip (flat_map f its) = flat_map f (ltrim its).
  Proof.
    induction its as [|it its IH]; intros H; [reflexivity|]. inversion H; subst.
    simpl. destruct (space_lit it) eqn:E.
    - destruct it; simpl in E; try discriminate. rewrite f_lit. simpl. rewrite E. apply IH; assumption.
    - destruct (f_head it) as [a [t [Hf Ha]]]; auto. simpl. rewrite Hf. simpl. rewrite Ha. reflexivity.
  Qed.
End Strip.

Lemma Forall_ltrim : forall (P : item -> Prop) its, Forall P its -> Forall P (ltrim its).
Proof.
  induction its as [|it its IH]; intros H; [constructor|]. inversion H; subst. simpl.
  destruct (space_lit it); [apply IH; assumption | assumption].
Qed.

Lemma flat_map_rev : forall (f : item -> str) its, rev (flat_map f its) = flat_map (fun x => rev (f x)) (rev its).
Proof.
  induction its as [|it its IH]; [reflexivity|]. simpl. rewrite rev_app_distr, IH, flat_map_app. simpl.
  rewrite app_nil_r. reflexivity.
Qed.

Lemma strip_flat : forall (f : item -> str) (P : item -> Prop),
  (forall c, f (ILit c) = [c]) ->
  (forall it, P it -> space_lit it = false ->
     exists a t, f it = a :: t /\ py_space a = false) ->
  (forall it, P it -> space_lit it = false ->
     exists a t, rev (f it) = a :: t /\ py_space a = false) ->
  forall its, Forall P its -> strip (flat_map f its) = flat_map f (trim its).
Proof.
  intros f P Hlit Hhead Hlast its H. unfold strip, trim.
  rewrite (lstrip_flat f P Hlit Hhead its H).
  rewrite flat_map_rev.
  rewrite (lstrip_flat (fun x => rev (f x)) P).
  - rewrite flat_map_rev. rewrite (flat_map_ext (fun x => rev (rev (f x))) f); [reflexivity|].
    intros; apply rev_involutive.
  - intros c. rewrite Hlit. reflexivity.
  - exact Hlast.
  - apply Forall_rev. apply Forall_ltrim. assumption.
Qed.

(** pieces of the phase-1 format string *)
Definition p1_ok (it : item) : Prop :=
  match it with
  | ILit c => c <> c_pct
  | IPct => True
  | IPh k (Some c) => k = k_invocation /\ c = conv_s
  | _ => False
  end.

Lemma p1_lits : forall s, Forall p1_ok (lits s).
Proof.
  induction s as [|c s IH]; [constructor|]. unfold lits; simpl. constructor; [|exact IH].
  unfold lit_item. destruct (N.eqb_spec c c_pct); simpl; auto.
Qed.

Lemma p1_phase1 : forall m its, Forall (piece_ok m) its -> Forall p1_ok (phase1_items m its).
Proof.
  induction its as [|it its IH]; intros H; [constructor|]. inversion H as [|? ? Hit Hr]; subst.
  unfold phase1_items; simpl. apply Forall_app; split; [|apply IH; assumption].
  destruct it as [c| |k [c|]|c|r]; simpl in Hit; try contradiction; simpl.
  - repeat constructor; assumption.
  - repeat constructor.
  - destruct (str_eqb k k_invocation); [repeat constructor|].
    destruct (lookup k m); [apply p1_lits | constructor].
Qed.

Lemma p1_wf : forall it, p1_ok it -> wf_item it.
Proof.
  intros [c| |k [c|]|c|r]; simpl; auto. intros [Hk Hc]; subst. split.
  - unfold key_ok, k_invocation, c_pct, c_lpar, c_rpar. simpl. intuition discriminate.
  - unfold conv_s, c_pct. discriminate.
Qed.

Lemma py_space_pct : py_space c_pct = false. Proof. reflexivity. Qed.

Lemma strip_render_p1 : forall its, Forall p1_ok its -> strip (render its) = render (trim its).
Proof.
  intros its H. unfold render. apply (strip_flat render_item p1_ok); auto.
  - intros [c| |k [c|]|c|r] Hp Hs; simpl in Hp; try contradiction; simpl.
    + exists c, []. split; [reflexivity|exact Hs].
    + exists c_pct, [c_pct]. split; reflexivity.
    + exists c_pct, (c_lpar :: k ++ [c_rpar; c]). split; reflexivity.
  - intros [c| |k [c|]|c|r] Hp Hs; simpl in Hp; try contradiction; simpl.
    + exists c, []. split; [reflexivity|exact Hs].
    + exists c_pct, [c_pct]. split; reflexivity.
    + destruct Hp; subst. simpl. eexists _, _. split; [reflexivity|reflexivity].
Qed.

(** what the second pass makes of a phase-1 piece *)
Definition out2 (n : Z) (it : item) : str :=
  match it with ILit c => [c] | IPct => [c_pct] | IPh _ _ => Z_dec n | _ => [] end.

Definition m2 (n : Z) : fmap := [(k_invocation, PI n)].

Lemma outs_p1 : forall n its, Forall p1_ok its -> outs (m2 n) its = Some (flat_map (out2 n) its).
Proof.
  induction its as [|it its IH]; intros H; [reflexivity|]. inversion H as [|? ? Hit Hr]; subst.
  simpl. rewrite IH by assumption.
  destruct it as [c| |k [c|]|c|r]; simpl in Hit; try contradiction; try reflexivity.
  destruct Hit; subst. reflexivity.
Qed.

Lemma Z_dec_first_last : forall n,
  (exists a t, Z_dec n = a :: t /\ py_space a = false) /\
  (exists a t, rev (Z_dec n) = a :: t /\ py_space a = false).
Proof.
  intros n. pose proof (Z_dec_nonempty n) as Hne. pose proof (Z_dec_chars n) as Hch.
  assert (Hsp : forall c, In c (Z_dec n) -> py_space c = false).
  { intros c Hc. apply Hch in Hc. unfold py_space.
    destruct Hc as [Hc|Hc]; [subst; reflexivity|].
    repeat match goal with |- context [?a <=? ?b] => destruct (N.leb_spec a b) end;
    repeat match goal with |- context [?a =? ?b] => destruct (N.eqb_spec a b) end; simpl; try reflexivity; lia. }
  split.
  - destruct (Z_dec n) as [|a t]; [contradiction|]. exists a, t. split; [reflexivity|]. apply Hsp. left; reflexivity.
  - destruct (rev (Z_dec n)) as [|a t] eqn:E.
    + exfalso. apply Hne. rewrite <- (rev_involutive (Z_dec n)), E. reflexivity.
    + exists a, t. split; [reflexivity|]. apply Hsp. apply in_rev. rewrite E. left; reflexivity.
Qed.

Lemma strip_out2 : forall n its, Forall p1_ok its -> strip (flat_map (out2 n) its) = flat_map (out2 n) (trim its).
Proof.
  intros n its H. apply (strip_flat (out2 n) p1_ok); auto.
  - intros [c| |k [c|]|c|r] Hp Hs; simpl in Hp; try contradiction; simpl.
    + exists c, []. split; [reflexivity|exact Hs].
    + exists c_pct, []. split; reflexivity.
    + apply Z_dec_first_last.
  - intros [c| |k [c|]|c|r] Hp Hs; simpl in Hp; try contradiction; simpl.
    + exists c, []. split; [reflexivity|exact Hs].
    + exists c_pct, []. split; reflexivity.
    + apply Z_dec_first_last.
Qed.

Lemma Forall_trim : forall (P : item -> Prop) its, Forall P its -> Forall P (trim its).
Proof. intros. unfold trim. apply Forall_rev, Forall_ltrim, Forall_rev, Forall_ltrim. assumption. Qed.

Lemma out2_lits : forall n s, flat_map (out2 n) (lits s) = s.
Proof.
  induction s as [|c s IH]; [reflexivity|]. unfold lits in *; simpl. rewrite IH.
  unfold lit_item. destruct (N.eqb_spec c c_pct); subst; reflexivity.
Qed.

Lemma out2_phase1 : forall m n its, Forall (piece_ok m) its ->
  flat_map (out2 n) (phase1_items m its) = spec_text m n its.
Proof.
  induction its as [|it its IH]; intros H; [reflexivity|]. inversion H as [|? ? Hit Hr]; subst.
  unfold phase1_items, spec_text; simpl. rewrite flat_map_app.
  fold (phase1_items m its). fold (spec_text m n its). rewrite IH by assumption. f_equal.
  destruct it as [c| |k [c|]|c|r]; simpl in Hit; try contradiction; simpl; try reflexivity.
  destruct (str_eqb k k_invocation); [simpl; apply app_nil_r|].
  destruct (lookup k m); [apply out2_lits | reflexivity].
Qed.

(** ** the two passes of run_id.py on a template *)
Definition cmdline_of_template (t : str) (m : fmap) : fres :=
  match expand_vars_fmt t m with FOk s => FOk (strip s) | e => e end.
Definition two_pass (t : str) (m : fmap) (n : Z) : fres :=
  match cmdline_of_template t m with FOk s => pyformat s (m2 n) | e => e end.

Theorem two_pass_spec : forall m n its, Forall (piece_ok m) its ->
  two_pass (render its) m n = FOk (strip (spec_text m n its)).
Proof.
  intros m n its H. unfold two_pass, cmdline_of_template.
  rewrite phase1_correct by assumption.
  pose proof (p1_phase1 m its H) as Hp1.
  rewrite strip_render_p1 by assumption.
  rewrite <- (out2_phase1 m n its H).
  rewrite strip_out2 by assumption.
  apply pyformat_render.
  - eapply Forall_impl; [apply p1_wf|]. apply Forall_trim. assumption.
  - apply outs_p1. apply Forall_trim. assumption.
Qed.

(** one pass with the final values: the declarative substitution itself *)
Lemma item_out_spec : forall m n it, piece_ok m it ->
  item_out ((k_invocation, PI n) :: m) it = Some (piece_text m n it).
Proof.
  intros m n [c| |k [c|]|c|r] H; simpl in H; try contradiction; try reflexivity.
  destruct H as [Hk [[Hki Hc]|[Hki [[Hc [v Hv]]|[Hc [z Hz]]]]]]; subst; simpl.
  - reflexivity.
  - destruct (str_eqb k k_invocation) eqn:E; [apply str_eqb_eq in E; contradiction|]. rewrite Hv. reflexivity.
  - destruct (str_eqb k k_invocation) eqn:E; [apply str_eqb_eq in E; contradiction|]. rewrite Hz. reflexivity.
Qed.

Theorem one_pass_spec : forall m n its, Forall (piece_ok m) its ->
  one_pass (render its) m n = FOk (spec_text m n its).
Proof.
  intros m n its H. unfold one_pass. apply pyformat_render.
  - eapply Forall_impl; [apply piece_ok_wf | exact H].
  - induction its as [|it its IH]; [reflexivity|]. inversion H; subst. simpl.
    rewrite item_out_spec by assumption. unfold spec_text in IH. rewrite IH by assumption. reflexivity.
Qed.

(** cmdline c m is cmdline_of_template on the assembled template *)
Lemma cmdline_assemble : forall c m, cmdline c m = cmdline_of_template (assemble c) m.
Proof. reflexivity. Qed.

(** ** errors are reported, not raised: every result of a pass is one of the five kinds, and the
    code maps KeyError / ValueError / TypeError to a user error (checked by the correspondence) *)

(** ** ~ expansion *)
Lemma expand_user_no_tilde : forall home esc s,
  Forall (fun w => expand_word home w = w) (split_ws s) -> expand_user home esc s = s.
Proof.
  intros home esc s H. unfold expand_user.
  assert (E : map (expand_word home) (split_ws s) = split_ws s).
  { induction (split_ws s) as [|w l IH]; [reflexivity|]. inversion H; subst. simpl. rewrite IH by assumption. congruence. }
  rewrite E.
  assert (R : forall l, list_str_eqb l l = true).
  { induction l as [|x l IH]; [reflexivity|]. simpl. rewrite str_eqb_refl. exact IH. }
  rewrite R. reflexivity.
Qed.

(** cmdline_for_next_invocation: the two passes with the number completed + 1, then ~ expansion *)
Lemma next_cmdline_two_pass : forall home c m k,
  next_cmdline home c m k =
  match two_pass (assemble c) m (k + 1) with FOk s => FOk (expand_user home true s) | e => e end.
Proof.
  intros. unfold next_cmdline, two_pass. rewrite cmdline_assemble.
  destruct (cmdline_of_template (assemble c) m); reflexivity.
Qed.

Theorem next_cmdline_spec : forall home c m k its,
  assemble c = render its -> Forall (piece_ok m) its ->
  next_cmdline home c m k = FOk (expand_user home true (strip (spec_text m (k + 1) its))).
Proof.
  intros home c m k its Ha H. rewrite next_cmdline_two_pass, Ha, two_pass_spec by assumption. reflexivity.
Qed.
