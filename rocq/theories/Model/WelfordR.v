(** Real-number instance of the translated streaming update, and the textbook definitions. *)
From Coq Require Import List Reals.
Import ListNotations.
From RV Require Import Gen.GenWelford.
Local Open Scope R_scope.

Definition radd_sample := add_sample R Rplus Rminus Rmult Rdiv sqrt INR Rmin Rmax.
Definition rinit := w_init R 0.
Definition rfold (l : list R) (s : wst R) : wst R := fold_left radd_sample l s.

Fixpoint sum (l : list R) : R := match l with [] => 0 | x :: r => x + sum r end.
Fixpoint sumsq (l : list R) : R := match l with [] => 0 | x :: r => x * x + sumsq r end.
Definition mean_of (l : list R) : R := sum l / INR (length l).
(** sum of squared deviations from mu *)
Fixpoint ssd (mu : R) (l : list R) : R := match l with [] => 0 | x :: r => (x - mu) * (x - mu) + ssd mu r end.
Definition pstdev (l : list R) : R := sqrt (ssd (mean_of l) l / INR (length l)).
Fixpoint list_min (d : R) (l : list R) : R := match l with [] => d | x :: r => list_min (Rmin d x) r end.
Fixpoint list_max (d : R) (l : list R) : R := match l with [] => d | x :: r => list_max (Rmax d x) r end.

(** Warm-up exclusion: while measuring, the first [w] data points of an invocation are warm-up
    (by position, executor.py); when loading, those with iteration number <= w (persistence.py). *)
Definition live_filter {A} (w : nat) (dps : list (nat * A)) : list (nat * A) := skipn w dps.
Definition reload_filter {A} (w : nat) (dps : list (nat * A)) : list (nat * A) :=
  filter (fun p => negb (Nat.leb (fst p) w)) dps.
Fixpoint number {A} (k : nat) (l : list A) : list (nat * A) :=
  match l with [] => [] | x :: r => (k, x) :: number (S k) r end.
