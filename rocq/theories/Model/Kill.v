(** M-Kill: what rebench/subprocess_kill.py collects and kills (a snapshot of the process forest as
    pgrep -P reports it), and the decision of rebench/subprocess_with_timeout.run whether to kill.
    The decision itself is regenerated from the source (Gen/GenFactsKill.kill_cond).  Executable, no proofs. *)
From Coq Require Import List ZArith Bool Arith.
Import ListNotations.
From RV Require Import Lib.Sx Gen.GenFactsKill.

(** the forest: children p = what `pgrep -P p` prints *)
Definition forest := nat -> list nat.

(** _get_process_children: the children, then the descendants of each child (depth first, by explicit fuel) *)
Fixpoint collect (fuel : nat) (f : forest) (pid : nat) : list nat :=
  match fuel with
  | O => []
  | S k => f pid ++ flat_map (collect k f) (f pid)
  end.

(** kill_process: the process itself, then everything collected - computed before the first kill *)
Definition kill_list (fuel : nat) (f : forest) (pid : nat) (recursively : bool) : list nat :=
  pid :: (if recursively then collect fuel f pid else []).

(** what run() does once the join returned or was interrupted *)
Inductive action := AKillRaise | AKillTimeout | ARaise | AReturn.
Definition decide (limit interrupted finished alive : bool) : action :=
  if kill_cond limit interrupted finished alive then
    (if interrupted && kill_then_raise then AKillRaise else AKillTimeout)
  else if interrupted && nokill_raises then ARaise else AReturn.

Definition kills (a : action) : bool := match a with AKillRaise | AKillTimeout => true | _ => false end.

(** limits of ten minutes and more: _join_with_keep_alive waits in slices of at most 600 s.  [run] is the time at
    which the process ends by itself, [elapsed] the time waited so far; a join returns early when the process ends.
    Returns the time waited in total and the slices asked for. *)
Local Open Scope Z_scope.
Definition slice_len (limit elapsed : Z) : Z := if 600 <? limit - elapsed then 600 else limit - elapsed.
Fixpoint join_loop (fuel : nat) (limit run elapsed : Z) : Z * list Z :=
  match fuel with
  | O => (elapsed, [])
  | S f =>
      if limit <=? elapsed then (elapsed, [])
      else
        let sl := slice_len limit elapsed in
        let e' := if run <=? elapsed + sl then Z.max elapsed run else elapsed + sl in
        if run <=? e' then (e', [sl])
        else let '(r, l) := join_loop f limit run e' in (r, sl :: l)
  end.
Local Close Scope Z_scope.

Definition sx_action (a : action) : sx :=
  I (match a with AKillRaise => 0 | AKillTimeout => 1 | ARaise => 2 | AReturn => 3 end)%Z.
Definition forest_of (edges : list (nat * list nat)) : forest :=
  fun p => match find (fun e => Nat.eqb (fst e) p) edges with Some e => snd e | None => [] end.
