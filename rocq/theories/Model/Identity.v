(** The identity of a run in the data file: generic model of the as_dict / from_dict pairs of the classes that
    make up a run's identity.  A class is described by a table (GENERATED from the source into
    Gen/GenIdentity.v): for every attribute its __eq__ compares, the key as_dict writes it under and when, and the
    key from_dict reads the corresponding constructor argument from.  Executable, no proofs. *)
From Coq Require Import List NArith Bool.
Import ListNotations.
From RV Require Import Lib.Str.

Inductive wcond := WAlways | WIfNotNone | WOther.
(* how __hash__ uses an attribute: as it is, as a tuple of the list it holds, as the sorted tuple of the items of the
   map it holds, as the items in insertion order *)
Inductive hkind := HPlain | HTuple | HSortedItems | HItems.
Inductive rkind := RRequired | ROptional | ROther.
Record fentry := { f_name : str; f_wkey : option str; f_wcond : wcond; f_rkey : option str; f_rkind : rkind }.
Definition tbl := list fentry.

Section Values.
  Variable V : Type.                         (* what an attribute holds, other than None *)
  Definition obj := str -> option V.         (* attribute name -> value (None = Python's None) *)
  Definition dict := list (str * option V).  (* key -> value, JSON null = None *)

  Fixpoint lookup (k : str) (d : dict) : option (option V) :=
    match d with [] => None | (k', v) :: r => if str_eqb k k' then Some v else lookup k r end.

  (* as_dict: always-written keys, and keys written only when the attribute is not None *)
  Definition as_dict (t : tbl) (o : obj) : dict :=
    flat_map (fun e => match f_wkey e with
                       | Some k => match f_wcond e, o (f_name e) with
                                   | WIfNotNone, None => []
                                   | _, v => [(k, v)]
                                   end
                       | None => []
                       end) t.

  (* from_dict: data[k] (KeyError if absent: modelled as None here, excluded by the table check) / data.get(k, None) *)
  Definition from_dict (t : tbl) (d : dict) : obj :=
    fun a => match find (fun e => str_eqb (f_name e) a) t with
             | Some e => match f_rkey e with
                         | Some k => match lookup k d with Some v => v | None => None end
                         | None => None
                         end
             | None => None
             end.
End Values.

(* what the round trip needs of a table *)
Definition entry_ok (e : fentry) : bool :=
  match f_wkey e, f_rkey e with
  | Some k, Some k' =>
      str_eqb k k'
      && match f_wcond e with WOther => false | _ => true end
      && match f_rkind e with ROther => false | _ => true end
      && match f_wcond e, f_rkind e with WIfNotNone, RRequired => false | _, _ => true end
  | _, _ => false
  end.
Fixpoint nodup_strs (l : list str) : bool :=
  match l with [] => true | x :: r => negb (existsb (str_eqb x) r) && nodup_strs r end.
Definition keys_of (t : tbl) : list str := flat_map (fun e => match f_wkey e with Some k => [k] | None => [] end) t.
Definition tbl_ok (t : tbl) : bool :=
  forallb entry_ok t && nodup_strs (keys_of t) && nodup_strs (map f_name t).

(* what "equal objects have equal hashes" needs of a class: every hashed attribute is compared by __eq__, and a map
   is hashed through its sorted items (dicts compare without regard to insertion order) *)
Definition hash_entry_ok (eqa : list str) (p : str * hkind) : bool :=
  existsb (str_eqb (fst p)) eqa && match snd p with HItems => false | _ => true end.
Definition hash_ok (c : list str * list (str * hkind)) : bool := forallb (hash_entry_ok (fst c)) (snd c).
