(** M-Report: the summary table of TextReporter._generate_all_output / _filter_columns
    (rebench/reporter.py) and the per-run Codespeed record.  Executable, no proofs. *)
From Coq Require Import List ZArith NArith Bool Arith.
Import ListNotations.
From RV Require Import Lib.Str Lib.Sx.

Inductive cell := CS (s : str) | CI (z : Z) | CFailed.

Definition cell_eqb (a b : cell) : bool :=
  match a, b with
  | CS x, CS y => str_eqb x y
  | CI x, CI y => Z.eqb x y
  | CFailed, CFailed => true
  | _, _ => false
  end.

(** int(round(mean, 0)) for a mean given exactly as p/q: round half to even *)
Definition round_half_even (p : Z) (q : positive) : Z :=
  let f := (p / Zpos q)%Z in
  let r := (p mod Zpos q)%Z in
  if (2 * r <? Zpos q)%Z then f
  else if (Zpos q <? 2 * r)%Z then (f + 1)%Z
  else if Z.even f then f else (f + 1)%Z.

Record runrow := {
  r_ident : list str;      (* Benchmark Executor Suite Extra Core Size Var Tag Machine *)
  r_samples : Z;           (* statistics.num_samples *)
  r_mean : Z * positive }. (* statistics.mean, exactly *)

Definition mean_cell (r : runrow) : cell :=
  if (r_samples r =? 0)%Z then CFailed else CI (round_half_even (fst (r_mean r)) (snd (r_mean r))).

Definition row_of (r : runrow) : list cell := map CS (r_ident r) ++ [CI (r_samples r); mean_cell r].

(** sorted(rows, key=itemgetter(2, 1, 3, 4, 5, 6, 7, 8)): strings compare by code point *)
Fixpoint str_leb (a b : str) : bool :=
  match a, b with
  | [], _ => true
  | _ :: _, [] => false
  | x :: a', y :: b' => if (x <? y)%N then true else if (y <? x)%N then false else str_leb a' b'
  end.
Fixpoint key_leb (a b : list str) : bool :=
  match a, b with
  | [], _ => true
  | _ :: _, [] => false
  | x :: a', y :: b' => if str_eqb x y then key_leb a' b' else str_leb x y
  end.
Definition cell_str (c : cell) : str := match c with CS s => s | _ => [] end.
Definition sort_key (row : list cell) : list str :=
  map (fun i => cell_str (nth i row CFailed)) [2; 1; 3; 4; 5; 6; 7; 8]%nat.

Fixpoint insert_row (r : list cell) (l : list (list cell)) : list (list cell) :=
  match l with
  | [] => [r]
  | x :: l' => if key_leb (sort_key x) (sort_key r) then x :: insert_row r l' else r :: l
  end.
(* stable: a later row goes after the earlier rows with the same key *)
Definition sort_rows (l : list (list cell)) : list (list cell) := fold_left (fun acc r => insert_row r acc) l [].

(** column compaction *)
Definition uniform (l : list cell) : bool :=
  match l with [] => true | x :: t => forallb (cell_eqb x) t end.
Definition hd_col (rows : list (list cell)) : list cell :=
  flat_map (fun r => match r with x :: _ => [x] | [] => [] end) rows.
Definition tl_cols (rows : list (list cell)) : list (list cell) := map (@tl cell) rows.
Fixpoint uniform_cols (n : nat) (rows : list (list cell)) : list bool :=
  match n with O => [] | S n' => uniform (hd_col rows) :: uniform_cols n' (tl_cols rows) end.

(* a column is deleted iff all its values are equal and it is not the last (mean) column *)
Fixpoint removed_mask (u : list bool) : list bool :=
  match u with
  | [] => []
  | [_] => [false]
  | b :: t => b :: removed_mask t
  end.

Fixpoint select {A} (mask : list bool) (l : list A) : list A :=
  match mask, l with
  | b :: m, x :: l' => if b then x :: select m l' else select m l'
  | _, _ => []
  end.

Fixpoint merge {A} (keep : list bool) (k r : list A) : list A :=
  match keep with
  | [] => []
  | true :: m => match k with x :: k' => x :: merge m k' r | [] => [] end
  | false :: m => match r with x :: r' => x :: merge m k r' | [] => [] end
  end.

Record table := {
  t_rows : list (list cell);
  t_cols : list str;
  t_summary : option (list (str * cell)) }.

Definition compact (names : list str) (rows : list (list cell)) : table :=
  if Nat.leb (length rows) 4 then {| t_rows := rows; t_cols := names; t_summary := None |}
  else
    let rm := removed_mask (uniform_cols (length names) rows) in
    let keep := map negb rm in
    {| t_rows := map (select keep) rows;
       t_cols := select keep names;
       t_summary := Some (select rm (combine names (hd [] rows))) |}.

Definition report (names : list str) (runs : list runrow) : table :=
  compact names (sort_rows (map row_of runs)).

(** Codespeed: result_value / std_dev / min / max of the run's statistics, -1 for a failed run *)
Definition codespeed_value {A} (run_failed : bool) (stats : A) : option A :=
  if run_failed then None else Some stats.

(** ** sx *)
Definition sx_cell (c : cell) : sx :=
  match c with CS s => L [I 0; sx_str s] | CI z => L [I 1; I z] | CFailed => L [I 2] end.
Definition sx_table (t : table) : sx :=
  L [sx_list (sx_list sx_cell) (t_rows t); sx_list sx_str (t_cols t);
     sx_opt (sx_list (sx_pair sx_str sx_cell)) (t_summary t)].
