(** M-Machine: a whole session of the executor (rebench/executor.py: RunScheduler and its
    subclasses, Executor.execute_run / _build_executor_and_suite / _process_builds /
    without_missing_binaries / execute) over the per-run machine of Model/Retry.v.

    A session is a fold of [gstep] over a list of picks (indices of runs).  The three sequential
    schedulers differ only in which run they pick next: batch stays on a run until it is done,
    round-robin rotates, random draws; all of them only pick runs that are not finished, and a pick
    of a finished run changes nothing here.  Executable, no proofs. *)
From Coq Require Import List ZArith Bool Arith.
Import ListNotations.
From RV Require Import Lib.Sx Gen.GenTermination Model.Retry.
Local Open Scope Z_scope.

(** static description of a run *)
Record rdesc := {
  d_cfg : rcfg;
  d_exe : nat;              (* the executable (path + name): runs with the same one are aborted together after 127 *)
  d_blds : list nat;        (* build commands it needs: the executor's, then the suite's (de-duplicated ids) *)
  d_adapter_ok : bool }.    (* the gauge adapter can be instantiated *)

(** everything outside ReBench: what a started process does as a function of (run, invocation number on
    the command line, how often this run was started before in this session), and whether a build works *)
Record world := {
  w_n : nat;                                (* runs are 0 .. w_n - 1 *)
  w_desc : nat -> rdesc;
  w_harness : nat -> Z -> nat -> outcome;
  w_bh : nat -> bool;
  w_faulty : bool;                          (* -f *)
  w_builds : bool }.                        (* false with -B *)

Inductive phase := Active | Finished.
Record lstate := { l_st : rstate; l_starts : nat; l_phase : phase }.

(** what one call of execute_run asks for / does, seen from the run alone *)
Inductive ev :=
| ENeed (b : nat) (ok : bool)   (* the build b has to have been run before going on; ok = its result *)
| EDropped                      (* FailedBuilding: the run is given up *)
| ENoAdapter
| EStart (inv : Z)
| ERec (inv : Z) (n : nat).

(* the builds a run walks through: all of them if they work, else up to and including the first that fails *)
Fixpoint build_walk (bh : nat -> bool) (bs : list nat) : list ev * bool :=
  match bs with
  | [] => ([], true)
  | b :: r => if bh b then let '(e, ok) := build_walk bh r in (ENeed b true :: e, ok)
              else ([ENeed b false], false)
  end.

Definition fail_now (l : lstate) : lstate :=
  {| l_st := with_tc (l_st l) (fail_immediately (s_tc (l_st l))); l_starts := l_starts l; l_phase := Finished |}.

(** one call of Executor.execute_run for run r: new local state, events, "exit status 127 seen" *)
Definition lstep (w : world) (r : nat) (l : lstate) : lstate * list ev * bool :=
  match l_phase l with
  | Finished => (l, [], false)
  | Active =>
      let d := w_desc w r in
      if negb (d_adapter_ok d) then (fail_now l, [ENoAdapter], false)
      else if terminated (d_cfg d) (l_st l) then
        ({| l_st := l_st l; l_starts := l_starts l; l_phase := Finished |}, [], false)
      else
        let '(bev, bok) := if w_builds w then build_walk (w_bh w) (d_blds d) else ([], true) in
        if negb bok then (fail_now l, bev ++ [EDropped], false)
        else
          let inv := s_completed (l_st l) + 1 in
          let o := w_harness w r inv (l_starts l) in
          let k := classify (w_faulty w) (d_cfg d) o in
          let st' := apply_cls (d_cfg d) (l_st l) k in
          let rec := match recorded (l_st l) k with Some (j, n) => [ERec j n] | None => [] end in
          ({| l_st := st'; l_starts := S (l_starts l);
              l_phase := if terminated (d_cfg d) st' then Finished else Active |},
           bev ++ EStart inv :: rec,
           match k with C127 => true | _ => false end)
  end.

(** global state *)
Inductive gev :=
| GBuild (b : nat) (ok : bool)
| GDropped | GNoAdapter
| GStart (inv : Z) | GRec (inv : Z) (n : nat)
| GAborted.                     (* without_missing_binaries: given up because a run with the same executable got 127 *)

Record gstate := {
  g_loc : nat -> lstate;
  g_built : list nat;                 (* builds that were run (is_built or build_failed) *)
  g_trace : list (nat * gev) }.       (* (run, event) in order *)

Fixpoint emit (r : nat) (built : list nat) (es : list ev) : list (nat * gev) * list nat :=
  match es with
  | [] => ([], built)
  | e :: rest =>
      match e with
      | ENeed b ok =>
          if existsb (Nat.eqb b) built then emit r built rest
          else let '(t, bl) := emit r (b :: built) rest in ((r, GBuild b ok) :: t, bl)
      | EDropped => let '(t, bl) := emit r built rest in ((r, GDropped) :: t, bl)
      | ENoAdapter => let '(t, bl) := emit r built rest in ((r, GNoAdapter) :: t, bl)
      | EStart i => let '(t, bl) := emit r built rest in ((r, GStart i) :: t, bl)
      | ERec i n => let '(t, bl) := emit r built rest in ((r, GRec i n) :: t, bl)
      end
  end.

Definition is_active (l : lstate) : bool := match l_phase l with Active => true | Finished => false end.

(* the runs given up together with run i after exit status 127 *)
Definition abort_group (w : world) (i : nat) (loc : nat -> lstate) : list nat :=
  filter (fun j => negb (Nat.eqb j i) && Nat.eqb (d_exe (w_desc w j)) (d_exe (w_desc w i)) && is_active (loc j))
         (seq 0 (w_n w)).

Definition gstep (w : world) (g : gstate) (i : nat) : gstate :=
  let '(l', es, hit) := lstep w i (g_loc g i) in
  let '(t, bl) := emit i (g_built g) es in
  let loc1 := fun j => if Nat.eqb j i then l' else g_loc g j in
  if hit then
    let grp := abort_group w i loc1 in
    {| g_loc := fun j => if existsb (Nat.eqb j) grp then fail_now (loc1 j) else loc1 j;
       g_built := bl;
       g_trace := g_trace g ++ t ++ map (fun j => (j, GAborted)) grp |}
  else {| g_loc := loc1; g_built := bl; g_trace := g_trace g ++ t |}.

Definition session (w : world) (picks : list nat) (g0 : gstate) : gstate := fold_left (gstep w) picks g0.

(** start of a session: progress comes from the data file (completed invocations, samples) *)
Definition linit (completed samples : Z) : lstate :=
  {| l_st := rstate_init completed samples; l_starts := 0; l_phase := Active |}.
Definition ginit (loaded : nat -> Z * Z) : gstate :=
  {| g_loc := fun r => linit (fst (loaded r)) (snd (loaded r)); g_built := []; g_trace := [] |}.

Definition all_finished (w : world) (g : gstate) : bool :=
  forallb (fun r => negb (is_active (g_loc g r))) (seq 0 (w_n w)).

(** Executor.execute: the session succeeded iff every run has its invocations, or -f *)
Definition exit_ok (w : world) (g : gstate) : bool :=
  forallb (fun r => r_invocations (d_cfg (w_desc w r)) <=? s_completed (l_st (g_loc g r))) (seq 0 (w_n w))
  || w_faulty w.

(** the pick streams of the sequential schedulers, with enough fuel; runs finished at the start are
    filtered out first (_filter_out_completed_runs uses the termination check, not the adapter) *)
Definition unfinished_at_start (w : world) (g : gstate) : list nat :=
  filter (fun r => negb (terminated (d_cfg (w_desc w r)) (l_st (g_loc g r)))) (seq 0 (w_n w)).

Fixpoint batch_run (w : world) (fuel : nat) (g : gstate) (todo : list nat) : gstate :=
  match fuel with
  | O => g
  | S f =>
      match todo with
      | [] => g
      | r :: rest =>
          let g' := gstep w g r in
          if is_active (g_loc g' r) then batch_run w f g' todo
          else batch_run w f g' (filter (fun j => is_active (g_loc g' j)) rest)
      end
  end.

Fixpoint rr_run (w : world) (fuel : nat) (g : gstate) (todo : list nat) : gstate :=
  match fuel with
  | O => g
  | S f =>
      match todo with
      | [] => g
      | r :: rest =>
          let g' := gstep w g r in
          if is_active (g_loc g' r) then rr_run w f g' (filter (fun j => is_active (g_loc g' j)) rest ++ [r])
          else rr_run w f g' (filter (fun j => is_active (g_loc g' j)) rest)
      end
  end.

(* random: the k-th pick is (choice k) mod the number of runs still in the list *)
Fixpoint rnd_run (w : world) (fuel : nat) (choice : list nat) (g : gstate) (todo : list nat) : gstate :=
  match fuel with
  | O => g
  | S f =>
      match todo, choice with
      | [], _ => g
      | _, [] => g
      | _ :: _, c :: cs =>
          let r := nth (c mod length todo) todo 0%nat in
          let g' := gstep w g r in
          rnd_run w f cs g' (filter (fun j => is_active (g_loc g' j)) todo)
      end
  end.

(** ** sx *)
Definition sx_gev (e : nat * gev) : sx :=
  match snd e with
  | GBuild b ok => L [sx_nat (fst e); I 0; sx_nat b; sx_bool ok]
  | GDropped => L [sx_nat (fst e); I 1]
  | GNoAdapter => L [sx_nat (fst e); I 2]
  | GStart i => L [sx_nat (fst e); I 3; sx_Z i]
  | GRec i n => L [sx_nat (fst e); I 4; sx_Z i; sx_nat n]
  | GAborted => L [sx_nat (fst e); I 5]
  end.
Definition sx_session (w : world) (g : gstate) : sx :=
  L [sx_list sx_gev (g_trace g);
     sx_list (fun r => L [sx_rstate (l_st (g_loc g r)); sx_bool (is_active (g_loc g r))]) (seq 0 (w_n w));
     sx_bool (exit_ok w g)].
