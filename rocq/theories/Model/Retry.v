(** M-Retry: the state of one run and what one process outcome does to it
    (Executor._generate_data_point / _eval_output, RunId._new_data_point), on top of the
    decision procedure translated from termination_check.py. Executable, no proofs. *)
From Coq Require Import List ZArith Bool.
Import ListNotations.
From RV Require Import Lib.Sx Gen.GenTermination.
Local Open Scope Z_scope.

(** What the harness printed, as far as the configured adapter is concerned. *)
Inductive outkind :=
| Parsable (n : nat)      (* n data points, no failure marker *)
| Unparsable              (* nothing the adapter recognises *)
| MarkedInvalid (n : nat) (* n data points and a failure marker ("Error", ...) *).

(** How one started process ended. rc = -9 is E_TIMEOUT, 127 command not found. *)
Inductive outcome :=
| OExit (rc : Z) (out : outkind)
| OOsErr.                 (* Popen raised OSError *)

Definition E_TIMEOUT : Z := -9.

(** gauge_adapter.parse_data: Some n = n data points, None = ExecutionDeliveredNoResults.
    Built-in adapters never return an empty list (C12), hence Parsable 0 is a reject. *)
Definition adapter_result (include_faulty : bool) (o : outkind) : option nat :=
  match o with
  | Parsable O => None
  | Parsable n => Some n
  | Unparsable => None
  | MarkedInvalid O => None
  | MarkedInvalid n => if include_faulty then Some n else None
  end.

Record rcfg := {
  r_invocations : Z; r_retries : Z; r_warmup : Z; r_ignore_timeouts : bool }.

Record rstate := {
  s_tc : tc;
  s_completed : Z;       (* RunId._max_invocation *)
  s_samples : Z;         (* statistics.num_samples: non-warm-up data points *)
  s_is_failed : bool;    (* RunId.is_failed, initially true *)
  s_missing : bool }.    (* RunId.executable_missing *)

Definition rstate_init (completed samples : Z) : rstate :=
  {| s_tc := tc_init; s_completed := completed; s_samples := samples; s_is_failed := true; s_missing := false |}.

Definition terminated (c : rcfg) (s : rstate) : bool :=
  should_terminate (r_retries c) (s_completed s) (r_invocations c) (s_tc s) (s_samples s).

(** classification of one outcome *)
Inductive cls := CFail | COk (n : nat) | C127 | COsErr.

Definition classify (include_faulty : bool) (c : rcfg) (o : outcome) : cls :=
  match o with
  | OOsErr => COsErr
  | OExit rc out =>
      if rc =? 127 then C127
      else if negb (rc =? 0) && negb include_faulty && negb ((rc =? E_TIMEOUT) && r_ignore_timeouts c)
      then CFail
      else match adapter_result include_faulty out with Some n => COk n | None => CFail end
  end.

Definition with_tc (s : rstate) (t : tc) : rstate :=
  {| s_tc := t; s_completed := s_completed s; s_samples := s_samples s;
     s_is_failed := s_is_failed s; s_missing := s_missing s |}.

Definition apply_cls (c : rcfg) (s : rstate) (k : cls) : rstate :=
  match k with
  | CFail => with_tc s (indicate_failed_execution (s_tc s))
  | COk n =>
      {| s_tc := indicate_successful_execution (s_tc s);
         s_completed := if (0 <? Z.of_nat n) then Z.max (s_completed s) (s_completed s + 1) else s_completed s;
         s_samples := s_samples s + Z.max 0 (Z.of_nat n - Z.max 0 (r_warmup c));
         s_is_failed := false; s_missing := s_missing s |}
  | C127 => {| s_tc := fail_immediately (s_tc s); s_completed := s_completed s; s_samples := s_samples s;
               s_is_failed := s_is_failed s; s_missing := true |}
  | COsErr => with_tc s (fail_immediately (s_tc s))
  end.

(** what one started process records in the data file: (invocation number, data points) *)
Definition recorded (s : rstate) (k : cls) : option (Z * nat) :=
  match k with COk n => if (0 <? Z.of_nat n) then Some (s_completed s + 1, n) else None | _ => None end.

(** One run under the batch scheduler: the command is started again and again until the
    termination check says stop.  Consumes one outcome per start; returns the list of
    (invocation number passed on the command line, what was recorded) and the final state.
    [None] = the outcome list was exhausted while the run wanted to go on. *)
Fixpoint run_loop (f : bool) (c : rcfg) (s : rstate) (outs : list outcome)
  : list (Z * option (Z * nat)) * rstate * bool :=
  if terminated c s then ([], s, true)
  else match outs with
       | [] => ([], s, false)
       | o :: rest =>
           let k := classify f c o in
           let s' := apply_cls c s k in
           let '(tr, sf, fin) := run_loop f c s' rest in
           ((s_completed s + 1, recorded s k) :: tr, sf, fin)
       end.

Definition sx_rstate (s : rstate) : sx :=
  L [sx_Z (f_consecutive_erroneous_executions (s_tc s)); sx_Z (f_failed_execution_count (s_tc s));
     sx_bool (f_fail_immediately (s_tc s)); sx_Z (s_completed s); sx_Z (s_samples s);
     sx_bool (s_is_failed s); sx_bool (s_missing s)].

Definition sx_loop (r : list (Z * option (Z * nat)) * rstate * bool) : sx :=
  let '(tr, s, fin) := r in
  L [sx_list (fun '(i, rec) => L [sx_Z i; sx_opt (fun '(j, n) => L [sx_Z j; sx_nat n]) rec]) tr;
     sx_rstate s; sx_bool fin].

Definition run_c04 (f : bool) (N retries warmup : Z) (ign : bool) (completed samples : Z) (outs : list outcome) : sx :=
  sx_loop (run_loop f {| r_invocations := N; r_retries := retries; r_warmup := warmup; r_ignore_timeouts := ign |}
                    (rstate_init completed samples) outs).
