(** M-FilterArgs: how a command-line argument after the experiment name is understood (configurator.py,
    _RunFilter.__init__): the argument is split at ':' and the if-chain GENERATED into Gen/GenFilter.v is walked; a
    branch that uses parts[i] with i beyond the list is CPython's IndexError (a traceback).  Executable, no proofs. *)
From Coq Require Import List NArith Bool Arith.
Import ListNotations.
From RV Require Import Lib.Str Lib.Sx Gen.GenFilter.

(* str.split(':'): never empty *)
Fixpoint split_colon_aux (cur_rev : str) (s : str) : list str :=
  match s with
  | [] => [rev cur_rev]
  | c :: r => if (c =? 58)%N then rev cur_rev :: split_colon_aux [] r else split_colon_aux (c :: cur_rev) r
  end.
Definition split_colon (s : str) : list str := split_colon_aux [] s.

Inductive fclass := FAccept (branch : nat) (l : flist) | FUnknown | FIndexError.

Definition branch_applies (tag : N) (need : option nat) (parts : list str) : bool :=
  match parts with
  | [c] :: _ => (c =? tag)%N
  | _ => false
  end && match need with Some n => Nat.eqb (length parts) n | None => true end.

Fixpoint classify_parts (bs : list (N * option nat * nat * flist)) (k : nat) (parts : list str) : fclass :=
  match bs with
  | [] => FUnknown
  | (tag, need, used, l) :: r =>
      if branch_applies tag need parts then (if Nat.ltb used (length parts) then FAccept k l else FIndexError)
      else classify_parts r (S k) parts
  end.

Definition classify_arg (s : str) : fclass := classify_parts filter_branches 0 (split_colon s).

Definition sx_fclass (c : fclass) : sx :=
  match c with
  | FAccept k l => L [sx_nat 0; sx_nat (match l with LExecutor => 0 | LSuite => 1 | LTag => 2 end)]
  | FUnknown => L [sx_nat 1]
  | FIndexError => L [sx_nat 2]
  end.
