(** M-Runs: compilation of a typed configuration into the set of runs
    (Configurator.__init__/_compile_experiments, Experiment.compile/_compile_runs/
    _compile_executors_and_benchmark_suites, Benchmark.compile, DataStore.create_run_id,
    _RunFilter).  Executable, no proofs. *)
From Coq Require Import List ZArith NArith Bool.
Import ListNotations.
From RV Require Import Lib.Sx Lib.Str Model.PyVal Gen.GenImportant Model.Settings.

(** YAML scalars as they occur in variable lists.  Booleans are identified with 0/1 when a run
    identity is formed (Python: True == 1, hash(True) == hash(1)). *)
Inductive scalar := SNone | SBool (b : bool) | SInt (z : Z) | SStr (s : str) | SFloat (tok : str).

Record details := { d_rd : lvl; d_vars : vlvl scalar }.

Record bench_cfg := { bc_name : str; bc_details : details; bc_command : option str; bc_extra : option str }.
Record suite_cfg := { sc_name : str; sc_details : details; sc_benchmarks : list bench_cfg }.
Record exec_cfg := { ec_name : str; ec_details : details; ec_has_profiler : bool }.
(** an entry of an experiment's `executions`: a name, or a name with details.  [x_details = None]
    covers a plain name and a name with empty / null details (both falsy in the code). *)
Record execution := { x_name : str; x_details : option details; x_suites : option (list str) }.
Record exp_cfg := { e_name : str; e_details : details; e_executions : option (list execution);
                    e_suites : option (list str); e_profile : bool }.
Record config := { c_machines : list (str * details); c_runs : lvl; c_experiments : list exp_cfg;
                   c_executors : list exec_cfg; c_suites : list suite_cfg;
                   c_default_experiment : option str }.

(** command-line selection *)
Record filters := { f_exec : list str;
                    f_suite : list (str * option str);   (* s:NAME / s:NAME:BENCH, NAME may be "*" *)
                    f_tag : list str }.
Record selection := { sel_exp : option str; sel_machine : option str; sel_filters : filters; sel_cli : cli }.

(** identity of a run: every configuration detail the __eq__ methods compare *)
Record run_key := {
  k_executor : str; k_exec_rd : run_details; k_exec_vars : variables scalar; k_profile : bool;
  k_suite : str; k_bench : str; k_command : str; k_extra : option str;
  k_rd : run_details; k_vars : variables scalar;
  k_cores : scalar; k_input : scalar; k_var : scalar; k_tag : scalar; k_machine : option str }.

Definition key_eq_dec : forall a b : run_key, {a = b} + {a <> b}.
Proof. repeat decide equality. Defined.

Inductive result (A : Type) := Ok (a : A) | UserErr | Crash.
Arguments Ok {A}. Arguments UserErr {A}. Arguments Crash {A}.

(** ---- lookups *)
Definition s_all : str := [97;108;108]%N.
Definition s_star : str := [42%N].
Fixpoint find_by {A} (name_of : A -> str) (n : str) (l : list A) : option A :=
  match l with [] => None | x :: r => if str_eqb (name_of x) n then Some x else find_by name_of n r end.

Definition exp_name_of (cfg : config) (sel : selection) : str :=
  match sel_exp sel with
  | Some n => n
  | None => match c_default_experiment cfg with Some n => n | None => s_all end
  end.

Definition selected_exps (cfg : config) (sel : selection) : option (list exp_cfg) :=
  let n := exp_name_of cfg sel in
  if str_eqb n s_all then Some (c_experiments cfg)
  else match find_by e_name n (c_experiments cfg) with Some e => Some [e] | None => None end.

Definition details_empty : details := {| d_rd := lvl_empty; d_vars := Build_vlvl None None None None |}.
Definition machine_details (cfg : config) (sel : selection) : option details :=
  match sel_machine sel with
  | None => Some details_empty
  | Some m => match find_by fst m (c_machines cfg) with Some (_, d) => Some d | None => None end
  end.

(** ---- the levels *)
Definition vars_builtin : variables scalar :=
  Build_variables [SStr []] [SInt 1] [SStr []] [SNone].

Definition base_rd (cfg : config) (sel : selection) (m : details) : run_details :=
  compile_rd (c_runs cfg) (compile_rd (d_rd m)
    (default_rd (cli_inv_override (sel_cli sel)) (cli_it_override (sel_cli sel)))).
Definition base_vars (m : details) : variables scalar := compile_vars (d_vars m) vars_builtin.

Definition suites_of (e : exp_cfg) (x : execution) : option (list str) :=
  match x_details x with
  | Some _ => match x_suites x with Some s => Some s | None => e_suites e end
  | None => e_suites e
  end.

Definition rd_execution (brd : run_details) (e : exp_cfg) (x : execution) : run_details :=
  let rd_e := compile_rd (d_rd (e_details e)) brd in
  match x_details x with Some d => compile_rd (d_rd d) rd_e | None => rd_e end.
Definition vars_execution (bv : variables scalar) (e : exp_cfg) (x : execution) : variables scalar :=
  let v_e := compile_vars (d_vars (e_details e)) bv in
  match x_details x with Some d => compile_vars (d_vars d) v_e | None => v_e end.

(** ---- normalisation of DataStore.create_run_id, with bool ~ int *)
Definition all_ascii_digits (s : str) : bool :=
  match s with [] => false | _ => forallb (fun c => ((48 <=? c) && (c <=? 57))%N) s end.
Definition digits_value (s : str) : Z :=
  fold_left (fun acc c => (acc * 10 + Z.of_N (c - 48))%Z) s 0%Z.
Definition norm_bool (v : scalar) : scalar :=
  match v with SBool b => SInt (if b then 1 else 0) | _ => v end.
Definition norm_cores (v : scalar) : scalar :=
  match v with SStr s => if all_ascii_digits s then SInt (digits_value s) else v | _ => norm_bool v end.
Definition norm_empty (v : scalar) : scalar :=
  match v with SStr [] => SNone | _ => norm_bool v end.

(** ---- filters: or within a group, and across groups *)
Definition group_ok {A} (fs : list A) (m : A -> bool) : bool :=
  match fs with [] => true | _ => existsb m fs end.
Definition suite_filter_matches (suite bench : str) (f : str * option str) : bool :=
  (str_eqb (fst f) s_star || str_eqb (fst f) suite)
  && match snd f with None => true | Some b => str_eqb b bench end.
Definition bench_selected (fl : filters) (executor suite bench : str) : bool :=
  group_ok (f_exec fl) (fun n => str_eqb n executor)
  && group_ok (f_suite fl) (suite_filter_matches suite bench).
Definition tag_selected (fl : filters) (tag : scalar) : bool :=
  group_ok (f_tag fl) (fun t => match tag with SStr s => str_eqb s t | _ => false end).

(** ---- enumeration *)
Definition mk_key (sel : selection) (e : exp_cfg) (ex : exec_cfg) (ex_rd : run_details)
           (ex_vars : variables scalar) (s : suite_cfg) (b : bench_cfg) (rd : run_details)
           (vars : variables scalar) (cores input var tag : scalar) : run_key :=
  {| k_executor := ec_name ex; k_exec_rd := ex_rd; k_exec_vars := ex_vars; k_profile := e_profile e;
     k_suite := sc_name s; k_bench := bc_name b;
     k_command := match bc_command b with Some c => c | None => bc_name b end; k_extra := bc_extra b;
     k_rd := rd; k_vars := vars;
     k_cores := norm_cores cores; k_input := norm_empty input; k_var := norm_empty var;
     k_tag := norm_bool tag;
     k_machine := match sel_machine sel with Some [] => None | m => m end |}.

Definition runs_of_bench (sel : selection) (e : exp_cfg) (ex : exec_cfg) (ex_rd : run_details)
           (ex_vars : variables scalar) (s : suite_cfg) (s_rd : run_details) (s_vars : variables scalar)
           (b : bench_cfg) : list run_key :=
  if negb (bench_selected (sel_filters sel) (ec_name ex) (sc_name s) (bc_name b)) then [] else
  let rd := resolve (compile_rd (d_rd (bc_details b)) s_rd) in
  let vars := compile_vars (d_vars (bc_details b)) s_vars in
  flat_map (fun cores =>
    flat_map (fun input =>
      flat_map (fun var =>
        flat_map (fun tag =>
          if tag_selected (sel_filters sel) tag
          then [mk_key sel e ex ex_rd ex_vars s b rd vars cores input var tag] else [])
        (vs_tags vars))
      (vs_variable_values vars))
    (vs_input_sizes vars))
  (vs_cores vars).

Definition runs_of_execution (cfg : config) (sel : selection) (brd : run_details)
           (bv : variables scalar) (e : exp_cfg) (x : execution) : list run_key :=
  match find_by ec_name (x_name x) (c_executors cfg), suites_of e x with
  | Some ex, Some suites =>
      let ex_rd := compile_rd (d_rd (ec_details ex)) (rd_execution brd e x) in
      let ex_vars := compile_vars (d_vars (ec_details ex)) (vars_execution bv e x) in
      flat_map (fun sn =>
        match find_by sc_name sn (c_suites cfg) with
        | Some s =>
            let s_rd := compile_rd (d_rd (sc_details s)) ex_rd in
            let s_vars := compile_vars (d_vars (sc_details s)) ex_vars in
            flat_map (runs_of_bench sel e ex ex_rd ex_vars s s_rd s_vars) (sc_benchmarks s)
        | None => []
        end) suites
  | _, _ => []
  end.

Definition runs_of_exp (cfg : config) (sel : selection) (brd : run_details) (bv : variables scalar)
           (e : exp_cfg) : list run_key :=
  match e_executions e with
  | Some xs => flat_map (runs_of_execution cfg sel brd bv e) xs
  | None => []
  end.

Definition enumerate (cfg : config) (sel : selection) (m : details) (exps : list exp_cfg) : list run_key :=
  flat_map (runs_of_exp cfg sel (base_rd cfg sel m) (base_vars m)) exps.

(** ---- validation: what makes the code raise ConfigurationError / ValueError *)
Definition execution_valid (cfg : config) (e : exp_cfg) (x : execution) : bool :=
  match suites_of e x with
  | None => false
  | Some suites =>
      match find_by ec_name (x_name x) (c_executors cfg) with
      | None => false
      | Some ex =>
          negb (e_profile e && negb (ec_has_profiler ex))
          && forallb (fun sn => match find_by sc_name sn (c_suites cfg) with Some _ => true | None => false end) suites
      end
  end.
Definition exp_valid (cfg : config) (e : exp_cfg) : bool :=
  match e_executions e with None => false | Some xs => forallb (execution_valid cfg e) xs end.

(** The set of runs as a duplicate-free list (interning by identity). *)
Definition compile (cfg : config) (sel : selection) : result (list run_key) :=
  match machine_details cfg sel with
  | None => UserErr
  | Some m =>
      match selected_exps cfg sel with
      | None => UserErr
      | Some exps =>
          if forallb (exp_valid cfg) exps then Ok (nodup key_eq_dec (enumerate cfg sel m exps)) else UserErr
      end
  end.
