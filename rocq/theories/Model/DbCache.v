(** M-DbCache: the retransmission cache of the ReBenchDB persistence (rebench/persistence.py
    _ReBenchDB: persist_data_point, send_data, _send_data_and_empty_cache, close) on top of the
    retry loop of one request (rebench/rebenchdb.py _send_with_retries), and the conversion of
    cached data points to the request payload (API v1 and v2).  Executable, no proofs. *)
From Coq Require Import List ZArith NArith Bool Arith.
Import ListNotations.
From RV Require Import Lib.Sx.

(** ** the server, as seen by urlopen *)
Inductive answer := Ack | Refuse | S5xx | S4xx.
(* the answer to the k-th PUT request of the session *)
Definition server := nat -> answer.

(** _send_with_retries: 4 further attempts unless the server answered 4xx.
    Returns (success, index of the next request). *)
Fixpoint send_retries (srv : server) (k : nat) (attempts : nat) : bool * nat :=
  match srv k with
  | Ack => (true, S k)
  | S4xx => (false, S k)
  | _ => match attempts with O => (false, S k) | S a => send_retries srv (S k) a end
  end.
Definition transmit (srv : server) (k : nat) : bool * nat := send_retries srv k 4.

(** ** the cache: a dict run -> list of data points, in insertion order *)
Definition cache_t := list (nat * list nat).

Fixpoint cache_add (r d : nat) (c : cache_t) : cache_t :=
  match c with
  | [] => [(r, [d])]
  | (r', ds) :: c' => if Nat.eqb r r' then (r', ds ++ [d]) :: c' else (r', ds) :: cache_add r d c'
  end.

Record dbst := {
  cache : cache_t;
  acked : list cache_t;      (* the content of every acknowledged request, oldest first *)
  next_req : nat;            (* number of PUT requests made so far *)
  last_send : Z }.           (* _last_send *)

Inductive ev :=
| EAdd (run dp : nat)        (* persist_data_point / loaded_data_point *)
| ESend (now : Z)            (* send_data() at time now (run completed / after loading) *)
| EClose.                    (* close() *)

Definition send_and_empty (srv : server) (s : dbst) : dbst :=
  match cache s with
  | [] => s
  | _ =>
      let '(ok, k') := transmit srv (next_req s) in
      if ok then {| cache := []; acked := acked s ++ [cache s]; next_req := k'; last_send := last_send s |}
      else {| cache := cache s; acked := acked s; next_req := k'; last_send := last_send s |}
  end.

Definition cache_seconds : Z := 30.

Definition step (srv : server) (s : dbst) (e : ev) : dbst :=
  match e with
  | EAdd r d => {| cache := cache_add r d (cache s); acked := acked s; next_req := next_req s; last_send := last_send s |}
  | ESend now =>
      if (cache_seconds <=? now - last_send s)%Z then
        let s' := send_and_empty srv s in
        {| cache := cache s'; acked := acked s'; next_req := next_req s'; last_send := now |}
      else s
  | EClose => send_and_empty srv s
  end.

Definition db_init (t0 : Z) : dbst := {| cache := []; acked := []; next_req := 0; last_send := t0 |}.
Definition run_events (srv : server) (t0 : Z) (evs : list ev) : dbst := fold_left (step srv) evs (db_init t0).

Definition flat (c : cache_t) : list nat := flat_map snd c.
Definition sent (s : dbst) : list nat := flat_map flat (acked s).
Fixpoint added (evs : list ev) : list nat :=
  match evs with
  | [] => []
  | EAdd _ d :: r => d :: added r
  | _ :: r => added r
  end.

(** ** payloads *)
Record dpt := { d_inv : nat; d_it : nat; d_ms : list (nat * Z) }.   (* measurements: (criterion, value) *)
Definition data_t := list (nat * list dpt).                        (* run -> data points *)

(* the criteria dict: (criterion, index) in insertion order; index = size at insertion *)
Definition ctab := list (nat * nat).
Fixpoint ctab_find (c : nat) (t : ctab) : option nat :=
  match t with [] => None | (c', i) :: t' => if Nat.eqb c c' then Some i else ctab_find c t' end.
Definition ctab_intern (c : nat) (t : ctab) : ctab * nat :=
  match ctab_find c t with Some i => (t, i) | None => (t ++ [(c, length t)], length t) end.

(** API v1: DataPoint.measurements_as_dict *)
Fixpoint enc_ms (t : ctab) (ms : list (nat * Z)) : ctab * list (Z * nat) :=
  match ms with
  | [] => (t, [])
  | (c, v) :: r => let '(t1, i) := ctab_intern c t in
                   let '(t2, out) := enc_ms t1 r in (t2, (v, i) :: out)
  end.
Record dp1 := { e_in : nat; e_it : nat; e_m : list (Z * nat) }.
Fixpoint enc_dps (t : ctab) (ds : list dpt) : ctab * list dp1 :=
  match ds with
  | [] => (t, [])
  | d :: r => let '(t1, m) := enc_ms t (d_ms d) in
              let '(t2, out) := enc_dps t1 r in
              (t2, {| e_in := d_inv d; e_it := d_it d; e_m := m |} :: out)
  end.
Fixpoint enc_runs (t : ctab) (data : data_t) : ctab * list (nat * list dp1) :=
  match data with
  | [] => (t, [])
  | (r, ds) :: rest => let '(t1, e) := enc_dps t ds in
                       let '(t2, out) := enc_runs t1 rest in (t2, (r, e) :: out)
  end.
(* convert_data_to_api_format: (all_data, criteria index) *)
Definition encode_v1 (data : data_t) : list (nat * list dp1) * ctab :=
  let '(t, out) := enc_runs [] data in (out, t).

(* what a receiver does with the criteria index *)
Fixpoint ctab_crit (i : nat) (t : ctab) : option nat :=
  match t with [] => None | (c, j) :: t' => if Nat.eqb i j then Some c else ctab_crit i t' end.
Definition dec_m (t : ctab) (m : Z * nat) : nat * Z :=
  match ctab_crit (snd m) t with Some c => (c, fst m) | None => (0, fst m) end.
Definition dec_dp (t : ctab) (e : dp1) : dpt :=
  {| d_inv := e_in e; d_it := e_it e; d_ms := map (dec_m t) (e_m e) |}.
Definition decode_v1 (p : list (nat * list dp1) * ctab) : data_t :=
  map (fun re => (fst re, map (dec_dp (snd p)) (snd re))) (fst p).

(** API v2: DataPoint.add_measurements_api_v20.  Per run a list of {in, m}, m.(criterion index)
    = values by iteration (None padding). *)
Definition col := list (option Z).
Record inv2 := { i_in : nat; i_m : list col }.

Fixpoint col_put (it : nat) (v : Z) (c : col) (fuel : nat) : col :=
  (* while len(c) + 1 < it: c.append(None);  c.append(v) *)
  match fuel with
  | O => c ++ [Some v]
  | S f => if Nat.ltb (S (length c)) it then col_put it v (c ++ [None]) f else c ++ [Some v]
  end.

Fixpoint upd_nth {A} (n : nat) (f : A -> A) (l : list A) : list A :=
  match l, n with
  | [], _ => []
  | x :: r, O => f x :: r
  | x :: r, S n' => x :: upd_nth n' f r
  end.

(* one measurement into the column list of its invocation; None = IndexError (index beyond the list) *)
Definition ms_put (t : ctab) (it : nat) (cv : nat * Z) (ms : list col) : option (ctab * list col) :=
  let '(t1, i) := ctab_intern (fst cv) t in
  let ms1 := if Nat.leb (length ms) i then ms ++ [[]] else ms in
  if Nat.ltb i (length ms1) then Some (t1, upd_nth i (fun c => col_put it (snd cv) c it) ms1) else None.

Fixpoint ms_put_all (t : ctab) (it : nat) (l : list (nat * Z)) (ms : list col) : option (ctab * list col) :=
  match l with
  | [] => Some (t, ms)
  | cv :: r => match ms_put t it cv ms with Some (t1, ms1) => ms_put_all t1 it r ms1 | None => None end
  end.

Fixpoint find_inv (n : nat) (l : list inv2) : option (list col) :=
  match l with [] => None | x :: r => if Nat.eqb (i_in x) n then Some (i_m x) else find_inv n r end.
Fixpoint set_inv (n : nat) (m : list col) (l : list inv2) : list inv2 :=
  match l with
  | [] => [{| i_in := n; i_m := m |}]
  | x :: r => if Nat.eqb (i_in x) n then {| i_in := n; i_m := m |} :: r else x :: set_inv n m r
  end.

Definition dp_put2 (t : ctab) (d : dpt) (data : list inv2) : option (ctab * list inv2) :=
  match d_ms d with
  | [] => Some (t, data)
  | _ =>
      let ms0 := match find_inv (d_inv d) data with Some m => m | None => repeat [] (length t) end in
      match ms_put_all t (d_it d) (d_ms d) ms0 with
      | Some (t1, ms1) => Some (t1, set_inv (d_inv d) ms1 data)
      | None => None
      end
  end.

Fixpoint dps_put2 (t : ctab) (ds : list dpt) (data : list inv2) : option (ctab * list inv2) :=
  match ds with
  | [] => Some (t, data)
  | d :: r => match dp_put2 t d data with Some (t1, d1) => dps_put2 t1 r d1 | None => None end
  end.

Fixpoint enc_runs2 (t : ctab) (data : data_t) : option (ctab * list (nat * list inv2)) :=
  match data with
  | [] => Some (t, [])
  | (r, ds) :: rest =>
      match dps_put2 t ds [] with
      | Some (t1, e) => match enc_runs2 t1 rest with Some (t2, out) => Some (t2, (r, e) :: out) | None => None end
      | None => None
      end
  end.
Definition encode_v2 (data : data_t) : option (list (nat * list inv2) * ctab) :=
  match enc_runs2 [] data with Some (t, out) => Some (out, t) | None => None end.

(** what a receiver of an API v2 request does: the value at (0-based) position j of the column of
    criterion index c in the entry of invocation n is the measurement (n, j+1, criterion c, value);
    None is padding. *)
Definition meas := (nat * nat * nat * Z)%type.                     (* invocation, iteration, criterion, value *)
Fixpoint dec_col (inv c pos : nat) (col : list (option Z)) : list meas :=
  match col with
  | [] => []
  | None :: r => dec_col inv c (S pos) r
  | Some v :: r => (inv, S pos, c, v) :: dec_col inv c (S pos) r
  end.
Definition crit_or0 (t : ctab) (i : nat) : nat := match ctab_crit i t with Some c => c | None => 0 end.
Fixpoint dec_cols_from (t : ctab) (inv k : nat) (ms : list col) : list meas :=
  match ms with
  | [] => []
  | c :: r => dec_col inv (crit_or0 t k) 0 c ++ dec_cols_from t inv (S k) r
  end.
Definition dec_inv2 (t : ctab) (x : inv2) : list meas := dec_cols_from t (i_in x) 0 (i_m x).
Definition decode_v2_run (t : ctab) (l : list inv2) : list meas := flat_map (dec_inv2 t) l.
Definition decode_v2 (p : list (nat * list inv2) * ctab) : list (nat * list meas) :=
  map (fun re => (fst re, decode_v2_run (snd p) (snd re))) (fst p).
(* the measurements of a run's data points *)
Definition meas_of_dp (d : dpt) : list meas := map (fun cv => (d_inv d, d_it d, fst cv, snd cv)) (d_ms d).
Definition meas_of (ds : list dpt) : list meas := flat_map meas_of_dp ds.

(* executable guards of the v2 theorems (Proofs/DbCacheV2P.v: wf_data, contig) *)
Fixpoint nodupb (l : list nat) : bool :=
  match l with [] => true | x :: r => negb (existsb (Nat.eqb x) r) && nodupb r end.
Definition dp_before (d d' : dpt) : bool :=
  match d_ms d' with [] => true | _ => negb (Nat.eqb (d_inv d') (d_inv d)) || Nat.ltb (d_it d') (d_it d) end.
Fixpoint wf_fromb (done ds : list dpt) : bool :=
  match ds with
  | [] => true
  | d :: r => Nat.leb 1 (d_it d) && nodupb (map fst (d_ms d)) && forallb (dp_before d) done && wf_fromb (done ++ [d]) r
  end.
Definition wf_datab (data : data_t) : bool := forallb (fun rd => wf_fromb [] (snd rd)) data.
Definition opt_is (cur : option nat) (n : nat) : bool := match cur with Some m => Nat.eqb m n | None => false end.
Fixpoint contig_fromb (seen : list nat) (cur : option nat) (ds : list dpt) : bool :=
  match ds with
  | [] => true
  | d :: r => (opt_is cur (d_inv d) || negb (existsb (Nat.eqb (d_inv d)) seen)) && contig_fromb (d_inv d :: seen) (Some (d_inv d)) r
  end.
Definition contig_datab (data : data_t) : bool := forallb (fun rd => contig_fromb [] None (snd rd)) data.

(* number of measurements, as reported by both converters *)
Definition count_ms (data : data_t) : nat :=
  fold_right (fun rd acc => fold_right (fun d a => length (d_ms d) + a) acc (snd rd)) 0 data.

(** ** sx *)
Definition sx_cache (c : cache_t) : sx := sx_list (sx_pair sx_nat (sx_list sx_nat)) c.
Definition sx_dbst (s : dbst) : sx := L [sx_cache (cache s); sx_list sx_cache (acked s); sx_nat (next_req s)].
Definition sx_ctab (t : ctab) : sx := sx_list (sx_pair sx_nat sx_nat) t.
Definition sx_dp1 (e : dp1) : sx := L [sx_nat (e_in e); sx_nat (e_it e); sx_list (sx_pair sx_Z sx_nat) (e_m e)].
Definition sx_v1 (p : list (nat * list dp1) * ctab) : sx :=
  L [sx_list (sx_pair sx_nat (sx_list sx_dp1)) (fst p); sx_ctab (snd p)].
Definition sx_inv2 (x : inv2) : sx := L [sx_nat (i_in x); sx_list (sx_list (sx_opt sx_Z)) (i_m x)].
Definition sx_v2 (p : option (list (nat * list inv2) * ctab)) : sx :=
  match p with
  | None => L []
  | Some q => L [sx_list (sx_pair sx_nat (sx_list sx_inv2)) (fst q); sx_ctab (snd q)]
  end.

Definition sx_meas (m : meas) : sx :=
  match m with (i, it, c, v) => L [sx_nat i; sx_nat it; sx_nat c; sx_Z v] end.
(* guards + what the model's receiver reads from the model's request *)
Definition sx_v2_decoded (data : data_t) : sx :=
  L [sx_bool (wf_datab data); sx_bool (contig_datab data);
     match encode_v2 data with
     | None => L []
     | Some p => L [sx_list (sx_pair sx_nat (sx_list sx_meas)) (decode_v2 p)]
     end].

Definition srv_of (l : list answer) : server := fun k => nth k l Refuse.
