(** M-Bytes: how a text file is cut into lines when it is read in text mode with universal
    newlines (the data file is opened with open(name, 'r')): LF, CR and CR LF end a line; what
    follows the last line end is an unterminated last line.  Executable, no proofs. *)
From Coq Require Import List NArith Bool.
Import ListNotations.
From RV Require Import Lib.Str Lib.Sx.

Definition c_lf : ch := 10%N.
Definition c_cr : ch := 13%N.

(* (text of the line without its line end, terminated?) *)
Fixpoint split_from (cur_rev : str) (s : str) : list (str * bool) :=
  match s with
  | [] => match cur_rev with [] => [] | _ => [(rev cur_rev, false)] end
  | c :: r =>
      if (c =? c_lf)%N then (rev cur_rev, true) :: split_from [] r
      else if (c =? c_cr)%N then
        match r with
        | c2 :: r' => if (c2 =? c_lf)%N then (rev cur_rev, true) :: split_from [] r'
                      else (rev cur_rev, true) :: split_from [] r
        | [] => [(rev cur_rev, true)]
        end
      else split_from (c :: cur_rev) r
  end.
Definition read_lines (s : str) : list (str * bool) := split_from [] s.

(* the text of a list of lines, each followed by LF *)
Definition text_of {A} (render : A -> str) (ls : list A) : str := flat_map (fun a => render a ++ [c_lf]) ls.

Definition sx_lines (l : list (str * bool)) : sx := sx_list (sx_pair sx_str sx_bool) l.
