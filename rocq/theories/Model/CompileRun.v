(** Entry point evaluated by the C01 / C19 correspondence checks. *)
From Coq Require Import List ZArith NArith Bool.
Import ListNotations.
From RV Require Import Lib.Sx Lib.Str Model.PyVal Model.Settings Model.SettingsRun Model.Compile.

Definition sx_scalar (v : scalar) : sx :=
  match v with
  | SNone => L [I 0%Z]
  | SBool b => L [I 1%Z; sx_bool b]
  | SInt z => L [I 2%Z; I z]
  | SStr s => L [I 3%Z; sx_str s]
  | SFloat t => L [I 4%Z; sx_str t]
  end.
Definition sx_variables (v : variables scalar) : sx :=
  L [sx_list sx_scalar (vs_input_sizes v); sx_list sx_scalar (vs_cores v);
     sx_list sx_scalar (vs_variable_values v); sx_list sx_scalar (vs_tags v)].
Definition sx_key (k : run_key) : sx :=
  L [sx_str (k_executor k); sx_rd (k_exec_rd k); sx_variables (k_exec_vars k); sx_bool (k_profile k);
     sx_str (k_suite k); sx_str (k_bench k); sx_str (k_command k); sx_opt sx_str (k_extra k);
     sx_rd (k_rd k); sx_variables (k_vars k);
     sx_scalar (k_cores k); sx_scalar (k_input k); sx_scalar (k_var k); sx_scalar (k_tag k);
     sx_opt sx_str (k_machine k)].
Definition run_compile (cfg : config) (sel : selection) : sx :=
  match compile cfg sel with
  | Ok rs => L [I 0%Z; sx_list sx_key rs]
  | UserErr => L [I 1%Z]
  | Crash => L [I 2%Z]
  end.
