(** M-Adapters: the parse_data loops of the six built-in gauge adapters as folds over lines,
    on top of the regular expressions GENERATED from the source (Gen/GenRegex.v).
    Executable, no proofs. *)
From Coq Require Import List NArith ZArith Bool Arith.
Import ListNotations.
From RV Require Import Lib.Sx Lib.Str Lib.Regex Gen.GenRegex.

(** A parsed value: the matched numeral token and what the code does with it.  The harness turns
    the token into a float with CPython's own float()/int() and applies the same operation. *)
Inductive value :=
| VFloat (tok : str)            (* float(tok) *)
| VFloatDiv1000 (tok : str)     (* float(tok) / 1000 *)
| VFloatMul1000 (tok : str)     (* float(tok) * 1000 *)
| VMinSec (mtok stok : str)     (* (float(mtok.strip() or 0) * 60 + float(stok)) * 1000 *)
| VIntTok (tok : str)           (* int(tok) *)
| VBool (b : bool)
| VZero.                        (* the int 0 *)

Record meas := { m_crit : str; m_unit : str; m_val : value }.
Definition dp := list meas.

Inductive line_class :=
| LIgnore
| LAdd (ms : list meas)         (* measurements added to the open data point *)
| LClose (ms : list meas)       (* added, then the data point is complete *)
| LReject                       (* the adapter raises OutputNotParseable at this line *)
| LCrash.                       (* an exception other than the two reject exceptions *)

Inductive presult :=
| PReject (invalid : bool)      (* OutputNotParseable (false) / ResultsIndicatedAsInvalid (true) *)
| POk (dps : list dp)
| PCrash.

Definition s_total : str := [116;111;116;97;108]%N.
Definition s_ms : str := [109;115]%N.
Definition is_total (m : meas) : bool := str_eqb (m_crit m) s_total.

(** data.split("\n") *)
Fixpoint split_nl_aux (s cur : str) : list str :=
  match s with
  | [] => [rev cur]
  | c :: r => if (c =? 10)%N then rev cur :: split_nl_aux r [] else split_nl_aux r (c :: cur)
  end.
Definition split_nl (s : str) : list str := split_nl_aux s [].

(** The common loop.  [stop] is JMH's "Run complete" test, made before the error check. *)
Section Loop.
  Variable is_err : str -> bool.
  Variable stop : str -> bool.
  Variable classify : str -> line_class.

  Definition finish (dps : list dp) : presult :=
    match dps with [] => PReject false | _ => POk (rev dps) end.

  Fixpoint loop (lines : list str) (cur : dp) (dps : list dp) : presult :=
    match lines with
    | [] => finish dps
    | l :: rest =>
        if stop l then finish dps
        else if is_err l then PReject true
        else match classify l with
             | LIgnore => loop rest cur dps
             | LAdd ms => loop rest (cur ++ ms) dps
             | LClose ms => loop rest [] ((cur ++ ms) :: dps)
             | LReject => PReject false
             | LCrash => PCrash
             end
    end.
End Loop.

Section Adapters.
  Variable U : uclass.
  Variable include_faulty : bool.

  Definition space_c (c : ch) : bool := cin U CSpace c.
  Fixpoint lstrip (s : str) : str := match s with c :: r => if space_c c then lstrip r else s | [] => [] end.
  Definition strip (s : str) : str := rev (lstrip (rev (lstrip s))).

  Definition grp (l : str) (cs : caps) (i : nat) : str := match group l cs i with Some g => g | None => [] end.

  (** GaugeAdapter.check_for_error *)
  Definition common_err (others : list re) (l : str) : bool :=
    if include_faulty then false
    else re_search U ga_re_error l || re_search U ga_re_segfault l || re_search U ga_re_bus_error l
         || existsb (fun r => re_search U r l) others.

  Definition mk_meas (c u : str) (v : value) := {| m_crit := c; m_unit := u; m_val := v |}.
  Definition close_if_total (m : meas) : line_class := if is_total m then LClose [m] else LAdd [m].

  (** RebenchLogAdapter *)
  Definition rbl_classify (l : str) : line_class :=
    match re_match U rbl_re_log_line l with
    | Some cs =>
        let tok := grp l cs rbl_re_log_line_g_runtime in
        let u := grp l cs rbl_re_log_line_g_unit in
        let v := if str_eqb u [117%N] then VFloatDiv1000 tok else VFloat tok in
        let crit := match group l cs 2 with Some g => match g with [] => s_total | _ => strip g end | None => s_total end in
        close_if_total (mk_meas crit s_ms v)
    | None =>
        match re_match U rbl_re_extra_criterion_log_line l with
        | Some cs =>
            close_if_total (mk_meas (grp l cs rbl_re_extra_criterion_log_line_g_criterion)
                                    (grp l cs rbl_re_extra_criterion_log_line_g_unit)
                                    (VFloat (grp l cs rbl_re_extra_criterion_log_line_g_value)))
        | None => LIgnore
        end
    end.
  Definition rbl_parse (data : str) : presult :=
    loop (common_err [rbl_re_NPB_partial_invalid; rbl_re_NPB_invalid; rbl_re_incorrect]) (fun _ => false)
         rbl_classify (split_nl data) [] [].

  (** float(line): CPython accepts optional white space, a sign, digits with single underscores
      between them, a fraction, an exponent, or inf / infinity / nan in any case. *)
  Definition digit_c (c : ch) : bool := cin U CDigit c.
  Fixpoint digits_us (s : str) (after_digit : bool) : option str :=
    (* longest prefix digit(_?digit)*; returns the rest; None if no digit at all when
       [after_digit] is false *)
    match s with
    | c :: r =>
        if digit_c c then match digits_us r true with Some x => Some x | None => Some r end
        else if (c =? 95)%N && after_digit
             then match r with
                  | d :: _ => if digit_c d then digits_us r false else Some s
                  | [] => Some s
                  end
             else if after_digit then Some s else None
    | [] => if after_digit then Some [] else None
    end.
  Definition lower (c : ch) : ch := if ((65 <=? c) && (c <=? 90))%N then (c + 32)%N else c.
  Definition ieq (s : str) (w : str) : bool := str_eqb (map lower s) w.
  Definition opt_sign (s : str) : str :=
    match s with c :: r => if ((c =? 43) || (c =? 45))%N then r else s | [] => [] end.
  Definition opt_exp (s : str) : option str :=
    (* an exponent is taken only if complete; otherwise the text is not a float *)
    match s with
    | c :: r => if ((c =? 101) || (c =? 69))%N then digits_us (opt_sign r) false else Some s
    | [] => Some []
    end.
  Definition py_float_ok (s : str) : bool :=
    let t := opt_sign (strip s) in
    if ieq t [105;110;102]%N || ieq t [105;110;102;105;110;105;116;121]%N || ieq t [110;97;110]%N then true
    else
      let after_int :=
        match digits_us t false with
        | Some r => (* digits [. [digits]] *)
            match r with
            | c :: r' => if (c =? 46)%N then match digits_us r' false with Some r'' => Some r'' | None => Some r' end
                         else Some r
            | [] => Some []
            end
        | None => (* . digits *)
            match t with
            | c :: r' => if (c =? 46)%N then digits_us r' false else None
            | [] => None
            end
        end in
      match after_int with
      | Some r => match opt_exp r with Some [] => true | _ => false end
      | None => false
      end.

  (** PlainSecondsLogAdapter *)
  Definition psl_classify (l : str) : line_class :=
    if py_float_ok l then LClose [mk_meas s_total s_ms (VFloatMul1000 l)] else LIgnore.
  Definition psl_parse (data : str) : presult :=
    loop (common_err [psl_re_NPB_partial_invalid; psl_re_NPB_invalid; psl_re_incorrect; psl_re_err])
         (fun _ => false) psl_classify (split_nl data) [] [].

  (** SavinaLogAdapter (the error check was added by the fix for F23) *)
  Definition sav_classify (l : str) : line_class :=
    match re_match U sav_re_log_line l with
    | Some cs => LClose [mk_meas s_total s_ms (VFloat (grp l cs 2))]
    | None => LIgnore
    end.

  (** ValidationLogAdapter; int() of more than 4300 digits raises ValueError (CPython >= 3.11),
      which the adapter turns into OutputNotParseable (fix for F6) *)
  Definition s_bool : str := [98;111;111;108]%N.
  Definition s_count : str := [99;111;117;110;116]%N.
  Definition s_Success : str := [83;117;99;99;101;115;115]%N.
  Definition s_Actors : str := [65;99;116;111;114;115]%N.
  Definition s_Messages : str := [77;101;115;115;97;103;101;115]%N.
  Definition s_Promises : str := [80;114;111;109;105;115;101;115]%N.
  Definition s_true : str := [116;114;117;101]%N.
  Definition int_ok (tok : str) : bool := Nat.leb (length tok) 4300.
  Definition val_classify (l : str) : line_class :=
    match re_match U val_re_log_line l with
    | Some cs =>
        let tok := grp l cs 4 in
        let v := if str_eqb (grp l cs 5) [117%N] then VFloatDiv1000 tok else VFloat tok in
        let crit := match group l cs 2 with Some g => match g with [] => s_total | _ => strip g end | None => s_total end in
        let succ := mk_meas s_Success s_bool (VBool (str_eqb (grp l cs 6) s_true)) in
        let m := mk_meas crit s_ms v in
        if is_total m then LClose [succ; m] else LAdd [succ; m]
    | None =>
        match re_match U val_re_actors l with
        | Some cs =>
            if int_ok (grp l cs 1) && int_ok (grp l cs 2) && int_ok (grp l cs 3) then
              LClose [mk_meas s_Actors s_count (VIntTok (grp l cs 1));
                      mk_meas s_Messages s_count (VIntTok (grp l cs 2));
                      mk_meas s_Promises s_count (VIntTok (grp l cs 3));
                      mk_meas s_total s_ms VZero]
            else LReject
        | None => LIgnore
        end
    end.
  Definition val_parse (data : str) : presult :=
    loop (common_err [val_re_NPB_partial_invalid; val_re_NPB_invalid; val_re_incorrect]) (fun _ => false)
         val_classify (split_nl data) [] [].

  (** JMHAdapter *)
  Definition jmh_classify (l : str) : line_class :=
    match re_match U jmh_re_result_line l with
    | Some cs => LClose [mk_meas s_total (strip (grp l cs 4)) (VFloat (grp l cs 3))]
    | None => LIgnore
    end.
  Definition jmh_parse (data : str) : presult :=
    loop (common_err []) (re_search U jmh_re_complete) jmh_classify (split_nl data) [] [].

  (** TimeAdapter, with GNU time's -f format *)
  Definition s_kb : str := [107;98]%N.
  Definition s_MaxRSS : str := [77;97;120;82;83;83]%N.
  Definition timf_classify (l : str) : line_class :=
    match re_match U tim_re_formatted_rss l with
    | Some cs => LAdd [mk_meas s_MaxRSS s_kb (VFloat (grp l cs 1))]
    | None =>
        match re_match U tim_re_formatted_time l with
        | Some cs => LClose [mk_meas s_total s_ms (VFloatMul1000 (grp l cs 1))]
        | None => LIgnore
        end
    end.
  Definition timf_parse (data : str) : presult :=
    loop (common_err []) (fun _ => false) timf_classify (split_nl data) [] [].

  (** TimeAdapter with `time -p`: the total ('real') is kept aside and appended at the end *)
  Definition s_real : str := [114;101;97;108]%N.
  Definition timp_line (l : str) : option meas :=
    let mk cs := let c := grp l cs 1 in
                 mk_meas (if str_eqb c s_real then s_total else c) s_ms (VMinSec (grp l cs 2) (grp l cs 3)) in
    match re_match U tim_re_time l with
    | Some cs => Some (mk cs)
    | None => match re_match U tim_re_time2 l with Some cs => Some (mk cs) | None => None end
    end.
  Fixpoint timp_loop (lines : list str) (cur : dp) (total : option meas) : presult :=
    match lines with
    | [] => match total with Some t => POk [cur ++ [t]] | None => PReject false end
    | l :: rest =>
        if common_err [] l then PReject true
        else match timp_line l with
             | Some m => if is_total m then timp_loop rest cur (Some m) else timp_loop rest (cur ++ [m]) total
             | None => timp_loop rest cur total
             end
    end.
  Definition timp_parse (data : str) : presult := timp_loop (split_nl data) [] None.

  Definition sav_parse (data : str) : presult :=
    loop (common_err []) (fun _ => false) sav_classify (split_nl data) [] [].
End Adapters.

(** ---- sx conversion and entry point *)
Definition sx_value (v : value) : sx :=
  match v with
  | VFloat t => L [I 0%Z; sx_str t]
  | VFloatDiv1000 t => L [I 1%Z; sx_str t]
  | VFloatMul1000 t => L [I 2%Z; sx_str t]
  | VMinSec a b => L [I 3%Z; sx_str a; sx_str b]
  | VIntTok t => L [I 4%Z; sx_str t]
  | VBool b => L [I 5%Z; sx_bool b]
  | VZero => L [I 6%Z]
  end.
Definition sx_meas (m : meas) : sx := L [sx_str (m_crit m); sx_str (m_unit m); sx_value (m_val m)].
Definition sx_presult (r : presult) : sx :=
  match r with
  | PReject b => L [I 0%Z; sx_bool b]
  | POk dps => L [I 1%Z; sx_list (sx_list sx_meas) dps]
  | PCrash => L [I 2%Z]
  end.

(** Unicode classes of the palette used by the generators (checked against `re` on every run). *)
Definition mem (c : N) (l : list N) : bool := existsb (N.eqb c) l.
Definition palette : uclass :=
  {| u_word := fun c => mem c [233; 223; 1635; 20013; 181; 170]%N;
     u_digit := fun c => mem c [1635]%N;
     u_space := fun c => mem c [160; 133; 8232; 12288]%N |}.

Definition run_adapter (which : nat) (f : bool) (data : str) : sx :=
  sx_presult (match which with
              | 0 => rbl_parse palette f data | 1 => psl_parse palette f data | 2 => sav_parse palette f data
              | 3 => val_parse palette f data | 4 => jmh_parse palette f data | 5 => timf_parse palette f data
              | _ => timp_parse palette f data
              end)%nat.

(** engine vs `re`: groups of re.match / boolean of re.search for pattern number k of all_patterns *)
Definition sx_caps (ngroups : nat) (s : str) (o : option caps) : sx :=
  match o with
  | None => L []
  | Some cs => L [sx_list (fun i => sx_opt (fun '(a, b) => L [sx_nat a; sx_nat b]) (cap_lookup i cs)) (seq 1 ngroups)]
  end.
Definition run_match (k : nat) (ngroups : nat) (s : str) : sx :=
  match nth_error all_patterns k with
  | Some (_, r) => L [sx_caps ngroups s (re_match palette r s); sx_bool (re_search palette r s)]
  | None => L [I (-1)%Z]
  end.
