(** M-Par: how the parallel scheduler hands the non-exclusive runs to its worker threads.
    Executable, no proofs.  The arithmetic (number of worker threads, size of the next chunk) is
    GENERATED from rebench/executor.py (Gen/GenPar.v); this file adds the loop around it:
    ParallelScheduler.acquire_work under its lock, called by every BenchmarkThread until it
    returns None.  Because acquire_work is one atomic step (acquire_locked) that depends only on the
    remaining list, the SEQUENCE of chunks is the same under every interleaving of the workers;
    a schedule only decides which worker receives which chunk. *)
From Coq Require Import List ZArith Bool Arith.
Import ListNotations.
From RV Require Import Gen.GenPar Lib.Sx.

Section Par.
Context {A : Type}.

(* one acquire_work call on the remaining list: pops `num` items from the end *)
Definition acquire (n : Z) (rem : list A) : option (list A * list A) :=
  match rem with
  | [] => None
  | _ => let t := Z.to_nat (take_items (Z.of_nat (length rem)) n) in
         Some (rev (skipn (length rem - t) rem), firstn (length rem - t) rem)
  end.

(* all chunks, in the order they are taken; fuel = an upper bound on the number of calls *)
Fixpoint chunks (fuel : nat) (n : Z) (rem : list A) : list (list A) * list A :=
  match fuel with
  | O => ([], rem)
  | S f => match acquire n rem with
           | None => ([], rem)
           | Some (c, rem') => let '(cs, r) := chunks f n rem' in (c :: cs, r)
           end
  end.

(* a schedule: which worker (0..threads-1) makes the next acquire_work call; what each worker received *)
Fixpoint deal (threads : nat) (sched : list nat) (cs : list (list A)) : list (nat * list A) :=
  match cs, sched with
  | c :: cs', w :: sched' => ((w mod threads)%nat, c) :: deal threads sched' cs'
  | c :: cs', [] => (0%nat, c) :: deal threads [] cs'
  | [], _ => []
  end.
End Par.

(* a session's non-exclusive runs as handed out on a machine with `cores` cores *)
Definition hand_out {A} (cores : Z) (runs : list A) : list (list A) * list A :=
  chunks (length runs) (num_threads cores) runs.

Definition sx_hand_out (cores : Z) (k : nat) : sx :=
  let '(cs, r) := hand_out cores (seq 0 k) in
  L [sx_Z (num_threads cores); sx_list (sx_list sx_nat) cs; sx_list sx_nat r].
