(** M-Denoise: the session skeleton around denoise (rebench/rebench.py: minimize_noise inside a try whose
    finally calls restore_noise - the fact is regenerated into Gen/GenFactsSession.restore_in_finally), the rule by
    which restore_noise decides to call sudo (rebench/denoise_client.py), the command wrapper of
    Executor._construct_cmdline, and the lower bound of the shielded core range (rebench/denoise.py).
    Executable, no proofs. *)
From Coq Require Import List ZArith Bool Arith.
Import ListNotations.
From RV Require Import Lib.Str Lib.Sx Gen.GenFactsSession.

(** a value in the JSON object printed by `denoise --json minimize` *)
Inductive jv := JAbsent | JFailed | JTrue | JFalse.
Definition truthy (v : jv) : bool := match v with JTrue | JFailed => true | _ => false end.  (* "failed" is a non-empty string *)

Inductive report :=
| RJson (nice shield : jv) (others : list jv)   (* can_set_nice, shielding, the remaining settings *)
| RNotJson.                                      (* password required, sudo or denoise missing, anything else *)

Definition values (r : report) : list jv :=
  match r with RJson n s o => filter (fun v => match v with JAbsent => false | _ => true end) (n :: s :: o) | RNotJson => [] end.
(* restore_noise: "everything failed, don't need to try to restore things" *)
Definition all_failed (r : report) : bool :=
  match values r with [] => false | vs => forallb (fun v => match v with JFailed => true | _ => false end) vs end.
Definition use_nice (r : report) : bool := match r with RJson n _ _ => truthy n | RNotJson => false end.
Definition use_shield (r : report) : bool := match r with RJson _ s _ => truthy s | RNotJson => false end.
(* did the start-up step change anything: some setting reported something else than "failed" / false *)
Definition changed_something (r : report) : bool :=
  existsb (fun v => match v with JTrue => true | _ => false end) (values r).

(** how the body of the session (loading data, executing the runs) ends *)
Inductive body_end := BReturn (ok : bool) | BUserError | BInterrupt | BOther.

Inductive dev :=
| DMinimize (profiling : bool)
| DStart (n : nat)
| DRestore (without_shielding without_nice : bool).

(* does control reach restore_noise: always if it is in the finally block, else only on a normal return *)
Definition reaches_restore (e : body_end) : bool :=
  restore_in_finally || match e with BReturn _ => true | _ => false end.

Definition session_events (use_denoise : bool) (r : report) (profiling : bool) (starts : list nat) (e : body_end) : list dev :=
  if use_denoise then
    DMinimize profiling :: map DStart starts
      ++ (if reaches_restore e && negb (all_failed r) then [DRestore (negb (use_shield r)) (negb (use_nice r))] else [])
  else map DStart starts.

Definition exit_code (e : body_end) : Z :=
  match e with BReturn true => 0 | BReturn false => 1 | BInterrupt => 2 | BUserError => 3 | BOther => 4 end%Z.

(** the wrapper around a benchmark command *)
Inductive token :=
| TSudo | TPreserveEnv (keys : list str) | TDenoise | TWithoutNice | TWithoutShielding | TCsetPath | TForProfiling
| TNumCores (n : nat) | TExec.

Definition wrapper (nice shield profiling has_cset : bool) (envkeys : list str) (ncores : nat) : list token :=
  if nice || shield then
    [TSudo] ++ (match envkeys with [] => [] | _ => [TPreserveEnv envkeys] end) ++ [TDenoise]
      ++ (if nice then [] else [TWithoutNice])
      ++ (if shield then (if has_cset then [TCsetPath] else []) else [TWithoutShielding])
      ++ (if profiling then [TForProfiling] else []) ++ [TNumCores ncores; TExec]
  else [].

(** floor (ln n) for 1 <= n < 8104, by the thresholds ceil(e^k) *)
Definition thresholds : list Z := [3; 8; 21; 55; 149; 404; 1097; 2981]%Z.
Definition floor_ln (n : Z) : Z := Z.of_nat (length (filter (fun t => Z.leb t n) thresholds)).
Definition shield_range (n : Z) : Z * Z := (floor_ln n, (n - 1)%Z).

(** ** sx *)
Definition sx_dev (d : dev) : sx :=
  match d with DMinimize p => L [I 0; sx_bool p] | DStart n => L [I 1; sx_nat n]
             | DRestore a b => L [I 2; sx_bool a; sx_bool b] end.
Definition sx_token (t : token) : sx :=
  match t with
  | TSudo => L [I 0] | TPreserveEnv ks => L [I 1; sx_list sx_str ks] | TDenoise => L [I 2] | TWithoutNice => L [I 3]
  | TWithoutShielding => L [I 4] | TCsetPath => L [I 5] | TForProfiling => L [I 6] | TNumCores n => L [I 7; sx_nat n] | TExec => L [I 8]
  end.
