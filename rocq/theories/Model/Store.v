(** M-Store: which data file a data point goes to.  DataStore.get hands out ONE persistence per data-file name
    (experiments naming the same file share it); a run collects the persistences of the experiments it belongs to
    in a SET; RunId.add_data_point gives the data point to every member of the set.  Executable, no proofs.

    Files are numbered (the harness numbers the distinct file names); an experiment is its file; a run is the list of
    the experiments it belongs to, in the order the configuration names them. *)
From Coq Require Import List Arith Bool.
Import ListNotations.
From RV Require Import Lib.Sx.

Definition file := nat.
Definition run := nat.
Record rec := { r_run : run; r_serial : nat }.     (* a data point: the run it was measured for, a serial number *)

(** set.add *)
Fixpoint add_once (f : file) (fs : list file) : list file :=
  match fs with
  | [] => [f]
  | g :: r => if Nat.eqb f g then fs else g :: add_once f r
  end.
Definition files_of (exps_of_run : list file) : list file := fold_left (fun acc f => add_once f acc) exps_of_run [].

(** the store: file -> what was appended to it, newest first *)
Definition store := file -> list rec.
Definition empty : store := fun _ => [].
Definition append (s : store) (f : file) (d : rec) : store := fun g => if Nat.eqb g f then d :: s g else s g.

(** RunId.add_data_point *)
Definition add_data_point (membership : run -> list file) (s : store) (d : rec) : store :=
  fold_left (fun s' f => append s' f d) (files_of (membership (r_run d))) s.

Definition session (membership : run -> list file) (ds : list rec) : store := fold_left (add_data_point membership) ds empty.

Definition sx_rec (d : rec) : sx := L [sx_nat (r_run d); sx_nat (r_serial d)].
Definition sx_store (nfiles : nat) (s : store) : sx := sx_list (fun f => sx_list sx_rec (rev (s f))) (seq 0 nfiles).
