(** M-Settings: compilation of run details and variable lists through the priority chain
    machine -> runs -> experiment -> execution -> executor -> suite -> benchmark
    (rebench/model/exp_run_details.py, exp_variables.py, configurator.py, experiment.py,
    executor.py, benchmark_suite.py, benchmark.py).  Executable, no proofs. *)
From Coq Require Import List ZArith NArith Bool.
Import ListNotations.
From RV Require Import Lib.Sx Lib.Str Model.PyVal Gen.GenImportant.

Definition env := list (str * str).

(** What one configuration level may say (every key optional). *)
Record lvl := {
  l_invocations : ival; l_iterations : ival; l_warmup : ival;
  l_min_iteration_time : option Z; l_max_invocation_time : option Z;
  l_ignore_timeouts : option bool; l_execute_exclusively : option bool;
  l_retries : option Z; l_env : option env }.

Definition lvl_empty : lvl :=
  {| l_invocations := VNone; l_iterations := VNone; l_warmup := VNone;
     l_min_iteration_time := None; l_max_invocation_time := None; l_ignore_timeouts := None;
     l_execute_exclusively := None; l_retries := None; l_env := None |}.

(** ExpRunDetails *)
Record run_details := {
  rd_invocations : ival; rd_iterations : ival; rd_warmup : ival;
  rd_min_iteration_time : option Z; rd_max_invocation_time : option Z;
  rd_ignore_timeouts : option bool; rd_execute_exclusively : option bool;
  rd_retries : option Z; rd_env : option env;
  rd_inv_override : option Z; rd_it_override : option Z }.

(** [none_or_X(config.get(key, defaults.key))]: the level's value if the key is present. *)
Definition compile_plain {A} (cfg dflt : option A) : option A :=
  match cfg with Some v => Some v | None => dflt end.

(** ExpRunDetails.compile(config, defaults) *)
Definition compile_rd (c : lvl) (d : run_details) : run_details :=
  {| rd_invocations := prefer_important (l_invocations c) (rd_invocations d);
     rd_iterations := prefer_important (l_iterations c) (rd_iterations d);
     rd_warmup := prefer_important (l_warmup c) (rd_warmup d);
     rd_min_iteration_time := compile_plain (l_min_iteration_time c) (rd_min_iteration_time d);
     rd_max_invocation_time := compile_plain (l_max_invocation_time c) (rd_max_invocation_time d);
     rd_ignore_timeouts := compile_plain (l_ignore_timeouts c) (rd_ignore_timeouts d);
     rd_execute_exclusively := compile_plain (l_execute_exclusively c) (rd_execute_exclusively d);
     rd_retries := compile_plain (l_retries c) (rd_retries d);
     rd_env := compile_plain (l_env c) (rd_env d);
     rd_inv_override := rd_inv_override d; rd_it_override := rd_it_override d |}.

(** ExpRunDetails.default(invocations_override, iterations_override) *)
Definition default_rd (inv_o it_o : option Z) : run_details :=
  {| rd_invocations := VInt 1; rd_iterations := VInt 1; rd_warmup := VNone;
     rd_min_iteration_time := Some 50%Z; rd_max_invocation_time := Some (-1)%Z;
     rd_ignore_timeouts := None; rd_execute_exclusively := Some true;
     rd_retries := Some 0%Z; rd_env := Some [];
     rd_inv_override := inv_o; rd_it_override := it_o |}.

(** resolve_override_and_important *)
Definition resolve (d : run_details) : run_details :=
  let inv := match rd_inv_override d with Some n => VInt n | None => rd_invocations d end in
  let it := match rd_it_override d with Some n => VInt n | None => rd_iterations d end in
  {| rd_invocations := remove_important inv; rd_iterations := remove_important it;
     rd_warmup := remove_important (rd_warmup d);
     rd_min_iteration_time := rd_min_iteration_time d; rd_max_invocation_time := rd_max_invocation_time d;
     rd_ignore_timeouts := rd_ignore_timeouts d; rd_execute_exclusively := rd_execute_exclusively d;
     rd_retries := rd_retries d; rd_env := rd_env d;
     rd_inv_override := rd_inv_override d; rd_it_override := rd_it_override d |}.

(** The chain: levels listed from lowest to highest priority. *)
Definition chain (levels : list lvl) (d : run_details) : run_details :=
  fold_left (fun acc l => compile_rd l acc) levels d.

(** Command-line options: -in, -it, -q, --setup-only (Configurator.__init__). *)
Record cli := { cli_in : option Z; cli_it : option Z; cli_quick : bool; cli_setup_only : bool }.
Definition cli_none := {| cli_in := None; cli_it := None; cli_quick := false; cli_setup_only := false |}.
Definition cli_inv_override (c : cli) : option Z :=
  if cli_quick c || cli_setup_only c then Some 1%Z else cli_in c.
Definition cli_it_override (c : cli) : option Z :=
  if cli_quick c || cli_setup_only c then Some 1%Z else cli_it c.

(** The effective run details of a benchmark: the seven documented levels. *)
Definition effective (c : cli) (machine runs experiment execution executor suite benchmark : lvl)
  : run_details :=
  resolve (chain [machine; runs; experiment; execution; executor; suite; benchmark]
                 (default_rd (cli_inv_override c) (cli_it_override c))).

(** Variable lists (ExpVariables): plain override, six levels (no global-runs level). *)
Section Vars.
  Variable V : Type.
  Record vlvl := { v_input_sizes : option (list V); v_cores : option (list V);
                   v_variable_values : option (list V); v_tags : option (list V) }.
  Record variables := { vs_input_sizes : list V; vs_cores : list V;
                        vs_variable_values : list V; vs_tags : list V }.
  Definition get_or {A} (o : option A) (d : A) : A := match o with Some v => v | None => d end.
  Definition compile_vars (c : vlvl) (d : variables) : variables :=
    {| vs_input_sizes := get_or (v_input_sizes c) (vs_input_sizes d);
       vs_cores := get_or (v_cores c) (vs_cores d);
       vs_variable_values := get_or (v_variable_values c) (vs_variable_values d);
       vs_tags := get_or (v_tags c) (vs_tags d) |}.
  Definition chain_vars (levels : list vlvl) (d : variables) : variables :=
    fold_left (fun acc l => compile_vars l acc) levels d.
  Definition effective_vars (empty : variables) (machine experiment execution executor suite benchmark : vlvl) :=
    chain_vars [machine; experiment; execution; executor; suite; benchmark] empty.
End Vars.
Arguments v_input_sizes {V}. Arguments v_cores {V}. Arguments v_variable_values {V}. Arguments v_tags {V}.
Arguments vs_input_sizes {V}. Arguments vs_cores {V}. Arguments vs_variable_values {V}. Arguments vs_tags {V}.
Arguments Build_vlvl {V}. Arguments Build_variables {V}.
Arguments compile_vars {V}. Arguments chain_vars {V}. Arguments effective_vars {V}.

(** ------------------------------------------------------------------------------------
    Specification side (written from docs/config.md, independent of the code above). *)
Fixpoint last_defined {A} (levels : list (option A)) : option A :=
  match levels with
  | [] => None
  | x :: rest => match last_defined rest with Some v => Some v | None => x end
  end.

Definition marked_value (v : ival) : option Z := match v with VStr z true => Some z | _ => None end.
Definition plain_or_marked_value (v : ival) : option Z :=
  match v with VInt z => Some z | VStr z _ => Some z | _ => None end.

(** value of the highest-priority level that is marked with "!" *)
Definition last_marked (levels : list ival) : option Z := last_defined (map marked_value levels).
(** value of the highest-priority level that defines the setting at all *)
Definition last_set (levels : list ival) : option Z := last_defined (map plain_or_marked_value levels).

Definition wf_ival (v : ival) : bool := match v with VErr => false | _ => true end.

Definition spec_marked (levels : list ival) (dflt : option Z) (cli : option Z) : option Z :=
  match cli with
  | Some n => Some n
  | None => match last_marked levels with
            | Some v => Some v
            | None => match last_set levels with Some v => Some v | None => dflt end
            end
  end.

Definition ival_result (v : ival) : option Z := match v with VInt z => Some z | _ => None end.

Definition spec_plain {A} (levels : list (option A)) (dflt : option A) : option A :=
  match last_defined levels with Some v => Some v | None => dflt end.

(** ------------------------------------------------------------------------------------
    Enumeration used by the exhaustive correspondence (C02): the k-th level says
    absent / plain (10+k, as int for even k, as string for odd k) / marked ((20+k)!). *)
Definition cell_value (k : nat) (c : nat) : ival :=
  match c with
  | 0%nat => VNone
  | 1%nat => if Nat.even k then VInt (10 + Z.of_nat k) else VStr (10 + Z.of_nat k) false
  | _ => VStr (20 + Z.of_nat k) true
  end.

Fixpoint assignments (n : nat) : list (list nat) :=
  match n with
  | O => [[]]
  | S n' => flat_map (fun c => map (cons c) (assignments n')) [0%nat; 1%nat; 2%nat]
  end.

Fixpoint number_from {A} (k : nat) (l : list A) : list (nat * A) :=
  match l with [] => [] | x :: r => (k, x) :: number_from (S k) r end.

Definition which := nat. (* 0 invocations, 1 iterations, 2 warmup *)
Definition lvl_with (w : which) (v : ival) : lvl :=
  match w with
  | 0%nat => {| l_invocations := v; l_iterations := VNone; l_warmup := VNone;
                l_min_iteration_time := None; l_max_invocation_time := None; l_ignore_timeouts := None;
                l_execute_exclusively := None; l_retries := None; l_env := None |}
  | 1%nat => {| l_invocations := VNone; l_iterations := v; l_warmup := VNone;
                l_min_iteration_time := None; l_max_invocation_time := None; l_ignore_timeouts := None;
                l_execute_exclusively := None; l_retries := None; l_env := None |}
  | _ => {| l_invocations := VNone; l_iterations := VNone; l_warmup := v;
            l_min_iteration_time := None; l_max_invocation_time := None; l_ignore_timeouts := None;
            l_execute_exclusively := None; l_retries := None; l_env := None |}
  end.

Definition pick (w : which) (d : run_details) : ival :=
  match w with 0%nat => rd_invocations d | 1%nat => rd_iterations d | _ => rd_warmup d end.

Definition effective_list (c : cli) (ls : list lvl) : run_details :=
  resolve (chain ls (default_rd (cli_inv_override c) (cli_it_override c))).

Definition enum_marked (w : which) (c : cli) : list ival :=
  map (fun a => pick w (effective_list c (map (fun '(k, x) => lvl_with w (cell_value k x)) (number_from 0 a))))
      (assignments 7).

Definition run_enum_marked (w : which) (c : cli) : sx := sx_list sx_ival (enum_marked w c).
