(** PrimFloat (binary64) instance of the translated streaming update, used for the bit-exact
    correspondence with CPython.  No theorem depends on this file. *)
From Coq Require Import List ZArith PrimFloat Uint63 FloatOps SpecFloat.
Import ListNotations.
From RV Require Import Lib.Sx Gen.GenWelford.

(* Python's min(a, b): b if b < a else a ; max(a, b): b if b > a else a *)
Definition fmin (a b : float) : float := if PrimFloat.ltb b a then b else a.
Definition fmax (a b : float) : float := if PrimFloat.ltb a b then b else a.
Definition f_of_nat (n : nat) : float := PrimFloat.of_uint63 (Uint63.of_Z (Z.of_nat n)).

Definition fadd_sample := add_sample float PrimFloat.add PrimFloat.sub PrimFloat.mul PrimFloat.div
                                     PrimFloat.sqrt f_of_nat fmin fmax.
Definition finit := w_init float PrimFloat.zero.

(** a float given as sign, 53-bit mantissa, exponent *)
Definition mk (neg : bool) (m : Z) (e : Z) : float :=
  match m with
  | Zpos p => SF2Prim (S754_finite neg p e)
  | _ => if neg then PrimFloat.neg_zero else PrimFloat.zero
  end.

Definition sx_float (x : float) : sx :=
  match Prim2SF x with
  | S754_zero s => L [sx_bool s; I 0; I 0]
  | S754_finite s m e => L [sx_bool s; I (Zpos m); I e]
  | S754_infinity s => L [sx_bool s; I (-1); I 0]
  | S754_nan => L [I 0; I (-2); I 0]
  end.

Definition sx_wst (s : wst float) : sx :=
  L [sx_nat (w_n _ s); sx_float (w_mean _ s); sx_float (w_m2 _ s); sx_float (w_std _ s);
     sx_float (w_min _ s); sx_float (w_max _ s)].

Definition run_welford (samples : list (bool * Z * Z)) : sx :=
  sx_wst (fold_left (fun s '(neg, m, e) => fadd_sample s (mk neg m e)) samples finit).
