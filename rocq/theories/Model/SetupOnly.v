(** M-SetupOnly: which runs `--setup-only` keeps (Configurator.get_runs): the runs are visited in the
    (unspecified) iteration order of a Python set; a run is kept iff one of its build commands has not
    been collected yet, and then all its build commands are collected.  Executable, no proofs. *)
From Coq Require Import List Arith Bool.
Import ListNotations.
From RV Require Import Lib.Sx.

Definition subsetb (a b : list nat) : bool := forallb (fun x => existsb (Nat.eqb x) b) a.

(* runs as (run, its build commands), in the order they are visited *)
Fixpoint select_setup (covered : list nat) (runs : list (nat * list nat)) : list nat :=
  match runs with
  | [] => []
  | (r, bs) :: rest => if subsetb bs covered then select_setup covered rest
                       else r :: select_setup (bs ++ covered) rest
  end.

Definition sx_select (runs : list (nat * list nat)) : sx := sx_list sx_nat (select_setup [] runs).
