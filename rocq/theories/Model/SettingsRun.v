(** Entry points evaluated by the C02 correspondence check (harness/c02.py). *)
From Coq Require Import List ZArith NArith Bool.
Import ListNotations.
From RV Require Import Lib.Sx Lib.Str Model.PyVal Gen.GenImportant Model.Settings.

Definition sx_env (e : env) : sx := sx_list (sx_pair sx_str sx_str) e.

Definition sx_rd (d : run_details) : sx :=
  L [ sx_ival (rd_invocations d); sx_ival (rd_iterations d); sx_ival (rd_warmup d);
      sx_opt sx_Z (rd_min_iteration_time d); sx_opt sx_Z (rd_max_invocation_time d);
      sx_opt sx_bool (rd_ignore_timeouts d); sx_opt sx_bool (rd_execute_exclusively d);
      sx_opt sx_Z (rd_retries d); sx_opt sx_env (rd_env d) ].

(** presence patterns for the plain settings *)
Fixpoint patterns (n : nat) : list (list bool) :=
  match n with
  | O => [[]]
  | S n' => flat_map (fun c => map (cons c) (patterns n')) [false; true]
  end.

Definition digits_of (k : nat) : str := [N.of_nat (48 + k)].

Definition lvl_plain (w : nat) (k : nat) (present : bool) : lvl :=
  if negb present then lvl_empty else
  let z := Z.of_nat k in
  match w with
  | 0%nat => {| l_invocations := VNone; l_iterations := VNone; l_warmup := VNone;
                l_min_iteration_time := Some (100 + z)%Z; l_max_invocation_time := None; l_ignore_timeouts := None;
                l_execute_exclusively := None; l_retries := None; l_env := None |}
  | 1%nat => {| l_invocations := VNone; l_iterations := VNone; l_warmup := VNone;
                l_min_iteration_time := None; l_max_invocation_time := Some (200 + z)%Z; l_ignore_timeouts := None;
                l_execute_exclusively := None; l_retries := None; l_env := None |}
  | 2%nat => {| l_invocations := VNone; l_iterations := VNone; l_warmup := VNone;
                l_min_iteration_time := None; l_max_invocation_time := None; l_ignore_timeouts := Some (Nat.even k);
                l_execute_exclusively := None; l_retries := None; l_env := None |}
  | 3%nat => {| l_invocations := VNone; l_iterations := VNone; l_warmup := VNone;
                l_min_iteration_time := None; l_max_invocation_time := None; l_ignore_timeouts := None;
                l_execute_exclusively := Some (Nat.odd k); l_retries := None; l_env := None |}
  | 4%nat => {| l_invocations := VNone; l_iterations := VNone; l_warmup := VNone;
                l_min_iteration_time := None; l_max_invocation_time := None; l_ignore_timeouts := None;
                l_execute_exclusively := None; l_retries := Some z; l_env := None |}
  | _ => {| l_invocations := VNone; l_iterations := VNone; l_warmup := VNone;
            l_min_iteration_time := None; l_max_invocation_time := None; l_ignore_timeouts := None;
            l_execute_exclusively := None; l_retries := None;
            l_env := Some (if Nat.eqb k 3 then [] else [([86%N], digits_of k)]) |}
  end.

Definition run_enum_plain (w : nat) : sx :=
  sx_list (fun p => sx_rd (effective_list cli_none (map (fun '(k, x) => lvl_plain w k x) (number_from 0 p))))
          (patterns 7).

(** variable lists: level k defines [k; k+10] *)
Definition vlvl_one (w : nat) (k : nat) (present : bool) : vlvl Z :=
  let v := if present then Some [Z.of_nat k; (Z.of_nat k + 10)%Z] else None in
  match w with
  | 0%nat => Build_vlvl v None None None
  | 1%nat => Build_vlvl None v None None
  | 2%nat => Build_vlvl None None v None
  | _ => Build_vlvl None None None v
  end.

Definition vars_empty : variables Z := Build_variables [(-1)%Z] [(-2)%Z] [(-3)%Z] [(-4)%Z].

Definition sx_vars (v : variables Z) : sx :=
  L [sx_list sx_Z (vs_input_sizes v); sx_list sx_Z (vs_cores v);
     sx_list sx_Z (vs_variable_values v); sx_list sx_Z (vs_tags v)].

Definition run_enum_vars (w : nat) : sx :=
  sx_list (fun p => sx_vars (chain_vars (map (fun '(k, x) => vlvl_one w k x) (number_from 0 p)) vars_empty))
          (patterns 6).

(** a full random configuration: the seven levels of one run and the CLI options *)
Definition run_effective (c : cli) (ls : list lvl) : sx := sx_rd (effective_list c ls).
