(** Entry point evaluated by the C03 correspondence check (harness/c03.py). *)
From Coq Require Import List ZArith NArith Bool.
Import ListNotations.
From RV Require Import Lib.Sx Lib.Str Model.Cmdline.

Definition run_c03 (home pcwd : str) (path : option str) (exe : str) (args : option str) (command : str)
           (extra : option str) (loc : option str) (m : fmap) (completed : Z) (e : list (str * str)) : sx :=
  let c := {| c_path := compile_path pcwd path; c_executable := exe; c_args := args; c_command := command;
              c_extra := extra |} in
  let l := suite_location pcwd loc path in
  let nxt := next_cmdline home c m completed in
  L [ sx_fres (cmdline c m); sx_fres nxt;
      sx_opt sx_fres (location l m); sx_opt sx_fres (cwd home l m);
      sx_list (sx_pair sx_str sx_str) (run_env home e);
      sx_list sx_str (match nxt with FOk s => sh_words s | _ => [] end) ].
