(** M-Cmd: how the command line of one invocation is put together (rebench/model/run_id.py:
    _construct_cmdline, _expand_vars, cmdline_for_next_invocation, expand_user, location, env).
    Python's `str % mapping` is written as a tokenizer (one pass over the characters, the way
    unicode_format scans) followed by a left-to-right substitution, so the first error met is the
    error reported.  Executable, no proofs. *)
From Coq Require Import List ZArith NArith Bool.
Import ListNotations.
From RV Require Import Lib.Str Lib.Sx.
Local Open Scope N_scope.

(** ** values in the formatting map *)
Inductive pyv := PS (s : str) | PI (z : Z).
Definition fmap := list (str * pyv).

Fixpoint lookup (k : str) (m : fmap) : option pyv :=
  match m with
  | [] => None
  | (k', v) :: m' => if str_eqb k k' then Some v else lookup k m'
  end.

(** decimal rendering of an integer: str(z) *)
Fixpoint uint_str (u : Decimal.uint) : str :=
  match u with
  | Decimal.Nil => []
  | Decimal.D0 u => 48 :: uint_str u | Decimal.D1 u => 49 :: uint_str u
  | Decimal.D2 u => 50 :: uint_str u | Decimal.D3 u => 51 :: uint_str u
  | Decimal.D4 u => 52 :: uint_str u | Decimal.D5 u => 53 :: uint_str u
  | Decimal.D6 u => 54 :: uint_str u | Decimal.D7 u => 55 :: uint_str u
  | Decimal.D8 u => 56 :: uint_str u | Decimal.D9 u => 57 :: uint_str u
  end.
Definition N_dec (n : N) : str := match n with 0 => [48] | _ => uint_str (N.to_uint n) end.
Definition Z_dec (z : Z) : str :=
  match z with
  | Z0 => [48] | Zpos p => N_dec (Npos p) | Zneg p => 45 :: N_dec (Npos p)
  end.

Definition pyv_str (v : pyv) : str := match v with PS s => s | PI z => Z_dec z end.

(** ** result of a formatting operation *)
Inductive fres :=
| FOk (s : str)
| FKeyErr          (* KeyError: key not in the mapping *)
| FValueErr        (* ValueError: incomplete format / unsupported format character *)
| FTypeErr         (* TypeError: %d with a str *)
| FOther.          (* forms outside the modelled subset: flags, width, precision, %r, %x of an int,
                      conversions without a key.  The generators do not produce them. *)

(** ** tokens *)
Inductive item :=
| ILit (c : ch)
| IPct                              (* %% *)
| IPh (key : str) (conv : option ch) (* %(key)c ; None: the string ended after the key *)
| INoKey (c : ch)                    (* %c without a key; scanning stopped here *)
| IBad (r : fres).                   (* scanning stopped here *)

Definition c_pct : ch := 37.  Definition c_lpar : ch := 40.  Definition c_rpar : ch := 41.

Definition in_chars (c : ch) (l : list ch) : bool := existsb (N.eqb c) l.
(* flags, width, precision, length modifiers and conversion characters: - + space # 0-9 . * h l L
   and d i o u x X e E f F g G c r s a *)
Definition spec_chars : list ch :=
  [45; 43; 32; 35; 48; 49; 50; 51; 52; 53; 54; 55; 56; 57; 46; 42; 104; 108; 76;
   100; 105; 111; 117; 120; 88; 101; 69; 102; 70; 103; 71; 99; 114; 115; 97].

Inductive tst := TLit | TPct | TKey (depth : nat) (acc : str) | TConv (key : str).

Fixpoint tokenize_from (st : tst) (s : str) : list item :=
  match s with
  | [] => match st with
          | TLit => []
          | TConv k => [IPh k None]
          | _ => [IBad FValueErr]
          end
  | c :: s' =>
      match st with
      | TLit => if c =? c_pct then tokenize_from TPct s' else ILit c :: tokenize_from TLit s'
      | TPct => if c =? c_pct then IPct :: tokenize_from TLit s'
                else if c =? c_lpar then tokenize_from (TKey 0 []) s'
                else [INoKey c]
      | TKey d acc =>
          if c =? c_rpar then
            match d with O => tokenize_from (TConv (rev acc)) s' | S d' => tokenize_from (TKey d' (c :: acc)) s' end
          else if c =? c_lpar then tokenize_from (TKey (S d) (c :: acc)) s'
          else tokenize_from (TKey d (c :: acc)) s'
      | TConv k => IPh k (Some c) :: tokenize_from TLit s'
      end
  end.

Definition tokenize (s : str) : list item := tokenize_from TLit s.

(** conversion of one value *)
Definition convert (c : ch) (v : pyv) : fres :=
  if c =? 115 then FOk (pyv_str v)                                   (* s *)
  else if in_chars c [100; 105; 117] then                            (* d i u *)
    match v with PI z => FOk (Z_dec z) | PS _ => FTypeErr end
  else if in_chars c [120; 88; 111; 101; 69; 102; 70; 103; 71] then  (* x X o e E f F g G *)
    match v with PI _ => FOther | PS _ => FTypeErr end
  else if in_chars c spec_chars then FOther                          (* c r a, flags, width ... *)
  else if c =? c_pct then FOther
  else FValueErr.

(* [seen]: a keyed placeholder was formatted before (a conversion without a key then finds
   "not enough arguments": TypeError, whatever the character) *)
Fixpoint subst_from (seen : bool) (its : list item) (m : fmap) : fres :=
  match its with
  | [] => FOk []
  | it :: rest =>
      let head :=
        match it with
        | ILit c => FOk [c]
        | IPct => FOk [c_pct]
        | IPh k oc =>
            match lookup k m with
            | None => FKeyErr
            | Some v => match oc with None => FValueErr | Some c => convert c v end
            end
        | INoKey c => if seen then FTypeErr else if in_chars c spec_chars then FOther else FValueErr
        | IBad r => r
        end in
      let seen' := match it with IPh _ _ => true | _ => seen end in
      match head with
      | FOk h => match subst_from seen' rest m with FOk t => FOk (h ++ t) | e => e end
      | e => e
      end
  end.
Definition subst := subst_from false.

(** `template % mapping` *)
Definition pyformat (t : str) (m : fmap) : fres := subst (tokenize t) m.

(** ** the pieces of run_id.py *)

(* str.replace('%%', '%%%%'): left to right, non-overlapping *)
Fixpoint double_pctpct (s : str) : str :=
  match s with
  | [] => []
  | a :: t =>
      match t with
      | [] => [a]
      | b :: s' =>
          if (a =? c_pct) && (b =? c_pct) then c_pct :: c_pct :: c_pct :: c_pct :: double_pctpct s'
          else a :: double_pctpct t
      end
  end.

(* v.replace('%', '%%') *)
Fixpoint esc_pct (s : str) : str :=
  match s with
  | [] => []
  | c :: s' => if c =? c_pct then c_pct :: c_pct :: esc_pct s' else c :: esc_pct s'
  end.
Definition esc_val (v : pyv) : pyv := match v with PS s => PS (esc_pct s) | PI z => PI z end.

Definition k_invocation : str := [105; 110; 118; 111; 99; 97; 116; 105; 111; 110].
Definition ph_invocation : str := [37; 40] ++ k_invocation ++ [41; 115].   (* "%(invocation)s" *)

(* str.strip(): Unicode white space *)
Definition py_space (c : ch) : bool :=
  ((9 <=? c) && (c <=? 13)) || ((28 <=? c) && (c <=? 32)) || (c =? 133) || (c =? 160) || (c =? 5760)
  || ((8192 <=? c) && (c <=? 8202)) || (c =? 8232) || (c =? 8233) || (c =? 8239) || (c =? 8287) || (c =? 12288).

Fixpoint lstrip (s : str) : str :=
  match s with c :: s' => if py_space c then lstrip s' else s | [] => [] end.
Definition strip (s : str) : str := rev (lstrip (rev (lstrip s))).

(** _expand_vars(string): one formatting pass that leaves the invocation placeholder in *)
Definition expand_vars (t : str) (m : fmap) : fres :=
  pyformat t ((k_invocation, PS ph_invocation) :: m).

(** _expand_vars(string, True): the result is a format string for the invocation number *)
Definition expand_vars_fmt (t : str) (m : fmap) : fres :=
  pyformat (double_pctpct t) ((k_invocation, PS ph_invocation) :: map (fun kv => (fst kv, esc_val (snd kv))) m).

Record cmd_cfg := {
  c_path : option str;        (* executor path after compilation *)
  c_executable : str;
  c_args : option str;
  c_command : str;            (* suite command *)
  c_extra : option str }.     (* str(extra_args) *)

Definition nonempty (o : option str) : option str :=
  match o with Some [] => None | x => x end.

Definition assemble (c : cmd_cfg) : str :=
  (match nonempty (c_path c) with Some p => p ++ [47] | None => [] end)
  ++ c_executable c
  ++ (match nonempty (c_args c) with Some a => 32 :: a | None => [] end)
  ++ 32 :: c_command c
  ++ (match nonempty (c_extra c) with Some a => 32 :: a | None => [] end).

(** RunId.cmdline() *)
Definition cmdline (c : cmd_cfg) (m : fmap) : fres :=
  match expand_vars_fmt (assemble c) m with
  | FOk s => FOk (strip s)
  | e => e
  end.

(** ** expand_user *)
Definition sh_ws (c : ch) : bool := (c =? 32) || (c =? 9) || (c =? 10) || (c =? 13).

Fixpoint split_ws_aux (s : str) (cur : str) : list str :=
  match s with
  | [] => match cur with [] => [] | _ => [rev cur] end
  | c :: s' => if sh_ws c then (match cur with [] => split_ws_aux s' [] | _ => rev cur :: split_ws_aux s' [] end)
               else split_ws_aux s' (c :: cur)
  end.
Definition split_ws (s : str) : list str := split_ws_aux s [].

Fixpoint split_on (d : ch) (s : str) (cur : str) : list str :=
  match s with
  | [] => [rev cur]
  | c :: s' => if c =? d then rev cur :: split_on d s' [] else split_on d s' (c :: cur)
  end.

Fixpoint join_with (d : str) (l : list str) : str :=
  match l with [] => [] | [x] => x | x :: r => x ++ d ++ join_with d r end.

Fixpoint rstrip_slash (s : str) : str :=
  match s with
  | [] => []
  | c :: s' => match rstrip_slash s' with [] => if c =? 47 then [] else [c] | r => c :: r end
  end.

(* os.path.expanduser with $HOME = home; `~name` of an unknown user stays as it is *)
Definition expanduser (home : str) (p : str) : str :=
  match p with
  | 126 :: rest =>
      match rest with
      | [] | 47 :: _ => match rstrip_slash home ++ rest with [] => [47] | r => r end
      | _ => p
      end
  | _ => p
  end.

Definition expand_word (home : str) (w : str) : str :=
  let e := expanduser home w in
  if in_chars 126 e && in_chars 58 e then join_with [58] (map (expanduser home) (split_on 58 e [])) else e.

(* shlex.quote *)
Definition sh_safe (c : ch) : bool :=
  ((48 <=? c) && (c <=? 57)) || ((65 <=? c) && (c <=? 90)) || ((97 <=? c) && (c <=? 122))
  || in_chars c [95; 64; 37; 43; 61; 58; 44; 46; 47; 45].
Fixpoint quote_body (w : str) : str :=
  match w with
  | [] => []
  | c :: w' => if c =? 39 then [39; 34; 39; 34; 39] ++ quote_body w' else c :: quote_body w'
  end.
Definition sh_quote (w : str) : str :=
  match w with
  | [] => [39; 39]
  | _ => if forallb sh_safe w then w else 39 :: quote_body w ++ [39]
  end.

Fixpoint list_str_eqb (a b : list str) : bool :=
  match a, b with
  | [], [] => true
  | x :: a', y :: b' => str_eqb x y && list_str_eqb a' b'
  | _, _ => false
  end.

(** expand_user(s, shell_escape) for strings without quotes and backslashes (shlex.split is then
    splitting at white space) *)
Definition expand_user (home : str) (escape : bool) (s : str) : str :=
  let parts := split_ws s in
  let parts' := map (expand_word home) parts in
  if list_str_eqb parts parts' then s
  else join_with [32] (if escape then map sh_quote parts' else parts').

(** RunId.cmdline_for_next_invocation() *)
Definition next_cmdline (home : str) (c : cmd_cfg) (m : fmap) (completed : Z) : fres :=
  match cmdline c m with
  | FOk s => match pyformat s [(k_invocation, PI (completed + 1)%Z)] with
             | FOk s' => FOk (expand_user home true s')
             | e => e
             end
  | e => e
  end.

(** the words the child sees: /bin/sh removes the quotes shlex.join added.  Modelled for words
    without quote characters: a word is safe text or '...'. *)
Fixpoint sh_words_aux (s : str) (cur : str) (inq : bool) (has : bool) : list str :=
  match s with
  | [] => if has then [rev cur] else []
  | c :: s' =>
      if inq then (if c =? 39 then sh_words_aux s' cur false true else sh_words_aux s' (c :: cur) true true)
      else if c =? 39 then sh_words_aux s' cur true true
      else if sh_ws c then (if has then rev cur :: sh_words_aux s' [] false false else sh_words_aux s' [] false false)
      else sh_words_aux s' (c :: cur) false true
  end.
Definition sh_words (s : str) : list str := sh_words_aux s [] false false.

(** RunId.location, and the directory the process is started in *)
Definition location (loc : option str) (m : fmap) : option fres :=
  match nonempty loc with
  | None => None
  | Some l => Some (expand_vars l m)
  end.

Definition cwd (home : str) (loc : option str) (m : fmap) : option fres :=
  match location loc m with
  | Some (FOk l) => match l with [] => Some (FOk []) | _ => Some (FOk (expanduser home l)) end
  | x => x
  end.

(** Executor.compile / BenchmarkSuite.compile: os.path.abspath unless the path starts with "~"
    (for clean relative paths abspath is cwd + "/" + path) *)
Definition abspath (pcwd p : str) : str := match p with 47 :: _ => p | _ => pcwd ++ 47 :: p end.
Definition compile_path (pcwd : str) (p : option str) : option str :=
  match p with
  | Some ((c :: _) as s) => if c =? 126 then Some s else Some (abspath pcwd s)
  | x => x
  end.
(* suite.get("location", executor.path), then the same treatment *)
Definition suite_location (pcwd : str) (loc path : option str) : option str :=
  compile_path pcwd (match loc with Some l => Some l | None => compile_path pcwd path end).

(** RunId.env *)
Definition run_env (home : str) (e : list (str * str)) : list (str * str) :=
  map (fun kv => (fst kv, expand_user home false (snd kv))) e.

(** ** specification: one pass over the template with the final values *)
Definition one_pass (t : str) (m : fmap) (inv : Z) : fres :=
  pyformat t ((k_invocation, PI inv) :: m).

(** ** sx *)
Definition sx_fres (r : fres) : sx :=
  match r with
  | FOk s => L [I 0; sx_str s] | FKeyErr => L [I 1] | FValueErr => L [I 2] | FTypeErr => L [I 3] | FOther => L [I 4]
  end.
