(** M-Format: Python's str.format as ReBench's UI uses it.  Every message the UI prints is a
    str.format template rendered with the single keyword `ind` (ui.py: auto_encode(stream, text,
    ind=_DETAIL_INDENT); humanfriendly's format calls text.format with these keywords).  Text that comes from the
    configuration, a command or a program's output is made literal with escape_braces (GENERATED
    from ui.py, Gen/GenUi.v).  Executable, no proofs.

    The tokenizer is a state machine over the characters, structurally recursive:
      two opening braces -> one, two closing braces -> one, a name in braces -> value of the name,
      a lone closing brace or an unterminated opening brace -> error.
    Field names other than exactly `ind`: a name that continues with ! : . [ (conversion, format
    spec, attribute, index) is classified FOther (outside the model, never produced by the UI's own
    templates); anything else is an error (KeyError / IndexError / ValueError in CPython). *)
From Coq Require Import List NArith Bool.
Import ListNotations.
From RV Require Import Lib.Str Lib.Sx.

Definition c_open : ch := 123%N.      (* { *)
Definition c_close : ch := 125%N.     (* } *)
Definition ind_name : str := [105; 110; 100]%N.        (* ind *)

Inductive fres := FOk (s : str) | FErr | FOther.
Definition fcons (c : ch) (r : fres) : fres := match r with FOk s => FOk (c :: s) | x => x end.
Definition fapp (p : str) (r : fres) : fres := match r with FOk s => FOk (p ++ s) | x => x end.

Inductive fstate := SNormal | SOpen | SField (name_rev : str) | SClose.

Definition special (c : ch) : bool := (c =? 33)%N || (c =? 58)%N || (c =? 46)%N || (c =? 91)%N.   (* ! : . [ *)

(* what a completed replacement field stands for *)
Inductive field_kind := KInd | KOther | KBad.
Definition field_kind_of (name : str) : field_kind :=
  if str_eqb name ind_name then KInd
  else match name with
       | a :: b :: c :: d :: _ => if str_eqb [a; b; c] ind_name && special d then KOther else
                                  if existsb special name then KOther else KBad
       | _ => if existsb special name then KOther else KBad
       end.

Fixpoint fmt (ind : str) (st : fstate) (s : str) : fres :=
  match s with
  | [] => match st with SNormal => FOk [] | _ => FErr end
  | c :: r =>
      match st with
      | SNormal => if (c =? c_open)%N then fmt ind SOpen r
                   else if (c =? c_close)%N then fmt ind SClose r
                   else fcons c (fmt ind SNormal r)
      | SOpen => if (c =? c_open)%N then fcons c_open (fmt ind SNormal r)
                 else if (c =? c_close)%N then FErr                      (* empty field: automatic numbering, no positional arguments *)
                 else fmt ind (SField [c]) r
      | SField n => if (c =? c_close)%N then
                      match field_kind_of (rev n) with
                      | KInd => fapp ind (fmt ind SNormal r)
                      | KOther => FOther
                      | KBad => FErr
                      end
                    else if (c =? c_open)%N then (if existsb special n then FOther else FErr)
                    else fmt ind (SField (c :: n)) r
      | SClose => if (c =? c_close)%N then fcons c_close (fmt ind SNormal r) else FErr
      end
  end.

Definition py_format (ind : str) (s : str) : fres := fmt ind SNormal s.

(* str.replace for a pattern of one character *)
Definition replace1 (old : ch) (new : str) (s : str) : str :=
  flat_map (fun c => if (c =? old)%N then new else [c]) s.

(** a UI message: fixed template text, the indent placeholder, text made literal *)
Inductive piece := PLit (tmpl : str) | PInd | PEsc (text : str).

Definition sx_fres (r : fres) : sx :=
  match r with FOk s => L [sx_nat 0; sx_str s] | FErr => L [sx_nat 1] | FOther => L [sx_nat 2] end.
