(** Values that the settings [invocations], [iterations] and [warmup] can take in a YAML
    configuration (schema type [text]): absent / an int / a string of digits, possibly ending
    in "!".  The primitive operations below give the meaning of the Python expressions the
    translator (translator/tr_important.py) maps onto them; they are part of the trusted base and
    are exercised by the C02 correspondence. *)
From Coq Require Import ZArith Bool.
From RV Require Import Lib.Sx.

Inductive ival :=
| VNone                        (* None / key absent *)
| VInt (z : Z)                 (* a Python int *)
| VStr (z : Z) (bang : bool)   (* the string str(z), followed by "!" when [bang] *)
| VErr.                        (* an exception (not reachable from the translated code on guarded paths) *)

Definition is_none (v : ival) : bool := match v with VNone => true | _ => false end.
(* isinstance(v, int) *)
Definition is_int (v : ival) : bool := match v with VInt _ => true | _ => false end.
(* str(v)[-1] == "!"   -- str(None) = "None", str(3) = "3" *)
Definition str_last_is_bang (v : ival) : bool := match v with VStr _ b => b | _ => false end.
(* v[-1] == "!"  (v is a str on every path that evaluates this) *)
Definition last_is_bang (v : ival) : bool := match v with VStr _ b => b | _ => false end.
(* str(v): on the paths that evaluate it v is an int or already a str *)
Definition py_str (v : ival) : ival :=
  match v with VInt z => VStr z false | VStr z b => VStr z b | _ => VErr end.
(* int(v) *)
Definition py_int (v : ival) : ival :=
  match v with VInt z => VInt z | VStr z false => VInt z | _ => VErr end.
(* int(v[:-1]) *)
Definition py_int_init (v : ival) : ival :=
  match v with VStr z true => VInt z | _ => VErr end.

Definition ival_eqb (a b : ival) : bool :=
  match a, b with
  | VNone, VNone => true | VErr, VErr => true
  | VInt x, VInt y => Z.eqb x y
  | VStr x p, VStr y q => Z.eqb x y && Bool.eqb p q
  | _, _ => false
  end.

Definition sx_ival (v : ival) : sx :=
  match v with
  | VNone => L nil
  | VInt z => L (cons (I 0) (cons (I z) nil))
  | VStr z b => L (cons (I 1) (cons (I z) (cons (sx_bool b) nil)))
  | VErr => L (cons (I 9) nil)
  end.
