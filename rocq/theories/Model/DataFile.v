(** M-File: the data file of rebench/persistence.py (_FilePersistence) as a list of lines.

    Two levels.  Character level: a measurement line is the tab-join of escaped columns
    (_escape_column / _unescape_column).  Line level: what the loader (_process_lines /
    _parse_data_line) makes of each kind of line, what a recording session appends
    (_open_file_and_append_execution_comment, _ensure_run_id_is_persisted,
    _persists_data_point_in_open_file), what -r keeps, and what a crash leaves behind.
    Run and benchmark identities are abstract keys at the line level.  Executable, no proofs. *)
From Coq Require Import List ZArith NArith Bool Arith.
Import ListNotations.
From RV Require Import Lib.Str Lib.Sx.
Local Open Scope N_scope.

(** ** character level *)
Definition c_bs : ch := 92.  Definition c_tab : ch := 9.  Definition c_lf : ch := 10.  Definition c_cr : ch := 13.
Definition c_t : ch := 116.  Definition c_n : ch := 110.  Definition c_r : ch := 114.

Fixpoint escape (s : str) : str :=
  match s with
  | [] => []
  | c :: r =>
      if c =? c_bs then c_bs :: c_bs :: escape r
      else if c =? c_tab then c_bs :: c_t :: escape r
      else if c =? c_lf then c_bs :: c_n :: escape r
      else if c =? c_cr then c_bs :: c_r :: escape r
      else c :: escape r
  end.

Fixpoint unescape (s : str) : str :=
  match s with
  | [] => []
  | c :: r =>
      if c =? c_bs then
        match r with
        | d :: r' =>
            if d =? c_bs then c_bs :: unescape r'
            else if d =? c_t then c_tab :: unescape r'
            else if d =? c_n then c_lf :: unescape r'
            else if d =? c_r then c_cr :: unescape r'
            else c :: unescape r
        | [] => [c]
        end
      else c :: unescape r
  end.

Fixpoint join_tab (l : list str) : str :=
  match l with [] => [] | [x] => x | x :: r => x ++ c_tab :: join_tab r end.

Fixpoint split_tab_aux (s : str) (cur : str) : list str :=
  match s with
  | [] => [rev cur]
  | c :: r => if c =? c_tab then rev cur :: split_tab_aux r [] else split_tab_aux r (c :: cur)
  end.
Definition split_tab (s : str) : list str := split_tab_aux s [].

(* one measurement line without its line end, and what the loader reads back *)
Definition write_columns (cols : list str) : str := join_tab (map escape cols).
Definition read_columns (line : str) : list str := map unescape (split_tab line).

(** ** line level *)
Record meas := { m_inv : nat; m_it : nat; m_total : bool; m_val : Z; m_rid : nat }.

Inductive line :=
| LComment                       (* shebang, start time, environment, source: any other # line *)
| LBench (id : nat) (key : nat)  (* "# benchmark: id={...}" *)
| LRun (id bid : nat) (key : nat)(* "# run_id: id={..., benchmark_id: bid}" *)
| LBadMeta                       (* a "# benchmark:" / "# run_id:" line that cannot be read *)
| LHeader                        (* the column header *)
| LData (m : meas)
| LGarbage                       (* anything else: rejected by the tolerant parser *)
| LPartial.                      (* a last line without its line end *)

Record dpoint := { p_run : nat; p_ms : list meas }.   (* run key, measurements ending with the total *)

Record lstate := {
  benches : list nat;            (* _id_to_benchmark: keys by id *)
  runs : list nat;               (* _id_to_run_id: run keys by id *)
  open_dp : option (nat * list meas);  (* (previous_run_id, measurements of the data point carried) *)
  loaded : list dpoint;          (* run_id.loaded_data_point calls, in order *)
  crashed : bool }.              (* an exception the loader does not handle *)

Definition ls_init : lstate := {| benches := []; runs := []; open_dp := None; loaded := []; crashed := false |}.

Definition with_open (s : lstate) (o : option (nat * list meas)) : lstate :=
  {| benches := benches s; runs := runs s; open_dp := o; loaded := loaded s; crashed := crashed s |}.
Definition crash (s : lstate) : lstate :=
  {| benches := benches s; runs := runs s; open_dp := open_dp s; loaded := loaded s; crashed := true |}.

(* the loader, one line *)
Definition load_line (s : lstate) (l : line) : lstate :=
  if crashed s then s else
  match l with
  | LPartial => s
  | LComment | LBadMeta => with_open s None
  | LBench id key =>
      (* assert benchmark not in file; assert len(_id_to_benchmark) == id *)
      if existsb (Nat.eqb key) (benches s) || negb (Nat.eqb (length (benches s)) id) then crash s
      else {| benches := benches s ++ [key]; runs := runs s; open_dp := None; loaded := loaded s; crashed := false |}
  | LRun id bid key =>
      if Nat.leb (length (benches s)) bid then with_open s None            (* IndexError: skipped *)
      else if negb (Nat.eqb (length (runs s)) id) then crash s            (* assert *)
      else {| benches := benches s; runs := runs s ++ [key]; open_dp := None; loaded := loaded s; crashed := false |}
  | LHeader => s
  | LGarbage => s
  | LData m =>
      match nth_error (runs s) (m_rid m) with
      | None => crash s                                                   (* UIError: run_id not found *)
      | Some rk =>
          let cur := match open_dp s with
                     | Some (prev, ms) => if Nat.eqb prev (m_rid m) then ms else []
                     | None => [] end in
          (* DataPoint.add_measurement: one invocation per data point *)
          match cur with
          | m0 :: _ => if negb (Nat.eqb (m_inv m0) (m_inv m)) then crash s else
              if m_total m then
                {| benches := benches s; runs := runs s; open_dp := Some (m_rid m, []);
                   loaded := loaded s ++ [{| p_run := rk; p_ms := cur ++ [m] |}]; crashed := false |}
              else with_open s (Some (m_rid m, cur ++ [m]))
          | [] =>
              if m_total m then
                {| benches := benches s; runs := runs s; open_dp := Some (m_rid m, []);
                   loaded := loaded s ++ [{| p_run := rk; p_ms := [m] |}]; crashed := false |}
              else with_open s (Some (m_rid m, [m]))
          end
      end
  end.

Definition load (f : list line) : lstate := fold_left load_line f ls_init.

(** a recording session: meta block (+ header if the file is empty) at the first data point, then
    per data point the records of a run not yet described and its measurement lines *)
Record newdp := { n_run : nat; n_bench : nat; n_inv : nat; n_ms : list (nat * bool * Z) }. (* it, total?, value *)

Fixpoint index_of (k : nat) (l : list nat) (i : nat) : option nat :=
  match l with [] => None | x :: r => if Nat.eqb x k then Some i else index_of k r (S i) end.

Record wstate := { w_benches : list nat; w_runs : list nat; w_opened : bool; w_out : list line }.

Definition meta_block : list line := [LComment; LComment; LComment; LComment].

Definition mk_meas (d : newdp) (rid : nat) (x : nat * bool * Z) : meas :=
  {| m_inv := n_inv d; m_it := fst (fst x); m_total := snd (fst x); m_val := snd x; m_rid := rid |}.

(* the lines written for one data point, and the tables afterwards *)
Definition dp_lines (file_empty : bool) (w : wstate) (d : newdp) : list line * (list nat * list nat) :=
  let open := if w_opened w then [] else meta_block ++ (if file_empty then [LHeader] else []) in
  let mk rid := map (fun x => LData (mk_meas d rid x)) (n_ms d) in
  match index_of (n_run d) (w_runs w) 0 with
  | Some rid => (open ++ mk rid, (w_benches w, w_runs w))
  | None =>
      let rid := length (w_runs w) in
      match index_of (n_bench d) (w_benches w) 0 with
      | Some bid => (open ++ LRun rid bid (n_run d) :: mk rid, (w_benches w, w_runs w ++ [n_run d]))
      | None =>
          let bid := length (w_benches w) in
          (open ++ LBench bid (n_bench d) :: LRun rid bid (n_run d) :: mk rid,
           (w_benches w ++ [n_bench d], w_runs w ++ [n_run d]))
      end
  end.

Definition write_dp (file_empty : bool) (w : wstate) (d : newdp) : wstate :=
  let r := dp_lines file_empty w d in
  {| w_benches := fst (snd r); w_runs := snd (snd r); w_opened := true; w_out := w_out w ++ fst r |}.

(* the lines a session appends to [file] when it records [dps] *)
Definition session_lines (file : list line) (dps : list newdp) : list line :=
  let s := load file in
  w_out (fold_left (write_dp (match file with [] => true | _ => false end))
                   dps {| w_benches := benches s; w_runs := runs s; w_opened := false; w_out := [] |}).

(** -r: every line is kept (also one that cannot be read) except the measurements of the selected runs (by run key) *)
Fixpoint rewrite_from (sel : nat -> bool) (rs : list nat) (f : list line) : list line :=
  match f with
  | [] => []
  | l :: r =>
      match l with
      | LData m =>
          match nth_error rs (m_rid m) with
          | Some rk => if sel rk then rewrite_from sel rs r else l :: rewrite_from sel rs r
          | None => l :: rewrite_from sel rs r
          end
      | LRun id bid key => l :: rewrite_from sel (rs ++ [key]) r
      | _ => l :: rewrite_from sel rs r
      end
  end.
Definition rewrite (sel : nat -> bool) (f : list line) : list line := rewrite_from sel [] f.

(** a crash while a session appends: the first k lines arrived, the next one possibly in part.
    What the following sessions find: the part is glued to the first line they append. *)
Inductive glued := GNone | GComment | GBadMeta | GGarbage.
Definition glue_line (g : glued) : list line :=
  match g with GNone => [] | GComment => [LComment] | GBadMeta => [LBadMeta] | GGarbage => [LGarbage] end.
Definition torn_now (file app : list line) (k : nat) (g : glued) : list line :=
  file ++ firstn k app ++ (match g with GNone => [] | _ => [LPartial] end).
(* after the next session appended [app2] (its first line, a comment, absorbed by the partial line) *)
Definition torn_then (file app : list line) (k : nat) (g : glued) (app2 : list line) : list line :=
  file ++ firstn k app ++ (match g with GNone => app2 | _ => glue_line g ++ tl app2 end).

(** the rewrite of -r as file-system steps (after the repair: temporary file next to the data
    file, closed, then one rename) *)
Inductive fsstep := SCreateTmp | SWriteTmp | SCloseTmp | SReplace.
Record disk := { data_f : list line; tmp_f : option (list line) }.
Definition fs_apply (new : list line) (d : disk) (s : fsstep) : disk :=
  match s with
  | SCreateTmp => {| data_f := data_f d; tmp_f := Some [] |}
  | SWriteTmp => {| data_f := data_f d; tmp_f := Some new |}
  | SCloseTmp => d
  | SReplace => match tmp_f d with Some t => {| data_f := t; tmp_f := None |} | None => d end
  end.
Definition rewrite_steps : list fsstep := [SCreateTmp; SWriteTmp; SCloseTmp; SReplace].
Definition crash_after (old new : list line) (k : nat) : disk :=
  fold_left (fs_apply new) (firstn k rewrite_steps) {| data_f := old; tmp_f := None |}.

(** ** sx *)
Definition sx_meas (m : meas) : sx := L [sx_nat (m_inv m); sx_nat (m_it m); sx_bool (m_total m); I (m_val m); sx_nat (m_rid m)].
Definition sx_dpoint (d : dpoint) : sx := L [sx_nat (p_run d); sx_list sx_meas (p_ms d)].
Definition sx_lstate (s : lstate) : sx :=
  L [sx_bool (crashed s); sx_list sx_nat (benches s); sx_list sx_nat (runs s); sx_list sx_dpoint (loaded s)].
Definition sx_line (l : line) : sx :=
  match l with
  | LComment => L [I 0] | LBench i k => L [I 1; sx_nat i; sx_nat k] | LRun i b k => L [I 2; sx_nat i; sx_nat b; sx_nat k]
  | LBadMeta => L [I 3] | LHeader => L [I 4] | LData m => L [I 5; sx_meas m] | LGarbage => L [I 6] | LPartial => L [I 7]
  end.

(** executable guards of the "-r, then load" theorem (Proofs/RewriteLoadP.v): the measurement lines of the file come
    in whole data points (non-total lines of one run and invocation, closed by its total line, nothing in between),
    and no "# run_id:" record refers to a benchmark record that is not there (the loader would skip it) *)
Fixpoint wffb_aux (cur : option (nat * nat)) (f : list line) : bool :=
  match f with
  | [] => match cur with None => true | Some _ => false end
  | LData m :: r =>
      match cur with
      | None => if m_total m then wffb_aux None r else wffb_aux (Some (m_rid m, m_inv m)) r
      | Some (rid, inv) => Nat.eqb (m_rid m) rid && Nat.eqb (m_inv m) inv
                           && (if m_total m then wffb_aux None r else wffb_aux cur r)
      end
  | _ :: r => match cur with None => wffb_aux None r | Some _ => false end
  end.
Definition wffb (f : list line) : bool := wffb_aux None f.

Fixpoint no_skipsb (s : lstate) (f : list line) : bool :=
  match f with
  | [] => true
  | l :: r => (match l with LRun _ bid _ => Nat.ltb bid (length (benches s)) | _ => true end) && no_skipsb (load_line s l) r
  end.
