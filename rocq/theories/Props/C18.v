(** C18 - the final report shows every run once with its true sample count and mean.
    Statements only; proofs in Proofs/ReportP.v.  The model (Model/Report.v) is tied to
    rebench/reporter.py by harness/c18.py. *)
From Coq Require Import List ZArith Bool Arith Permutation.
Import ListNotations.
From RV Require Import Lib.Str Model.Report Proofs.ReportP.
From RV Require Import Gen.GenFactsCodespeed.

(** Up to four runs: the table has one row per run, all columns, nothing else. *)
Theorem C18_rows_small :
  forall names runs, length runs <= 4 ->
    Permutation (t_rows (report names runs)) (map row_of runs)
    /\ t_cols (report names runs) = names /\ t_summary (report names runs) = None.
Proof.
  intros names runs H. split; [apply report_rows_perm; exact H|].
  unfold report. rewrite compact_small; [split; reflexivity|].
  rewrite (Permutation_length (sort_rows_perm (map row_of runs))), map_length. exact H.
Qed.
Print Assumptions C18_rows_small.

(** More than four runs: putting the deleted columns back from the list of uniform values gives,
    as a multiset, exactly one full row per run, and the complete header - no column is dropped,
    every run appears once, no cell changes. *)
Theorem C18_compaction_lossless :
  forall names runs,
    Forall (fun r => length (r_ident r) + 2 = length names) runs -> 4 < length runs ->
    exists summary keep,
      t_summary (report names runs) = Some summary /\
      Permutation (map (fun o => merge keep o (map snd summary)) (t_rows (report names runs))) (map row_of runs) /\
      merge keep (t_cols (report names runs)) (map fst summary) = names.
Proof. exact report_lossless. Qed.
Print Assumptions C18_compaction_lossless.

(** A column is deleted only if all its values are equal, and the mean column never is. *)
Theorem C18_removed_columns :
  forall (names : list str) rows, names <> [] ->
    let rm := removed_mask (uniform_cols (length names) rows) in
    last rm true = false /\ Forall2 (fun r u => r = true -> u = true) rm (uniform_cols (length names) rows).
Proof. exact compact_removed_columns. Qed.
Print Assumptions C18_removed_columns.

Theorem C18_uniform_means_equal :
  forall l, uniform l = true <-> (forall a b, In a l -> In b l -> a = b).
Proof. exact uniform_all_equal. Qed.
Print Assumptions C18_uniform_means_equal.

(** The cells of a run: its sample count, and "Failed" iff there is no sample, else the mean
    rounded to a nearest integer (ties to even). *)
Theorem C18_cells :
  (forall r, row_of r = map CS (r_ident r) ++ [CI (r_samples r); mean_cell r])
  /\ (forall r, mean_cell r = CFailed <-> r_samples r = 0%Z)
  /\ (forall p q, (2 * Z.abs (round_half_even p q * Zpos q - p) <= Zpos q)%Z)
  /\ (forall p q, (2 * (p mod Zpos q) = Zpos q)%Z -> Z.even (round_half_even p q) = true).
Proof.
  split; [reflexivity|]. split; [exact mean_cell_failed|]. split; [exact round_half_even_near | exact round_half_even_tie].
Qed.
Print Assumptions C18_cells.

(** Codespeed: read off CodespeedReporter._format_for_codespeed on every run - when the run has statistics and did not fail,
    the fields min, max, std_dev and result_value carry the minimum, maximum, standard deviation and mean of the run's statistics
    object (the one whose streaming values C15 proves equal to the textbook values of the same samples); otherwise result_value
    is -1; no later statement of the method overwrites them. *)
Theorem C18_codespeed_fields :
  codespeed_fields = [(FMin, SMin); (FMax, SMax); (FStdDev, SStdDev); (FResultValue, SMean)]
  /\ codespeed_failed_value = (-1)%Z /\ codespeed_template_has_the_fields = true.
Proof. repeat split; reflexivity. Qed.
Print Assumptions C18_codespeed_fields.

(** Non-vacuity: five runs, executor and suite uniform, one failed run. *)
Example C18_example :
  let mk (b : N) (n m : Z) := {| r_ident := [[b]; [69%N]; [83%N]; []; [49%N]; []; []; []; []]; r_samples := n; r_mean := (m, 2%positive) |} in
  let runs := [mk 65%N 3 5; mk 66%N 3 7; mk 67%N 0 0; mk 68%N 3 9; mk 69%N 3 11]%Z in
  let names := map (fun n => [N.of_nat n]) (seq 0 11) in
  t_cols (report names runs) = [[0%N]; [9%N]; [10%N]]
  /\ length (t_rows (report names runs)) = 5
  /\ In [CS [67%N]; CI 0%Z; CFailed] (t_rows (report names runs))
  /\ In [CS [65%N]; CI 3%Z; CI 2%Z] (t_rows (report names runs)).
Proof. vm_compute. repeat split; auto 10. Qed.
