(** C10 - failures stay contained; the exit status tells the truth.
    Statements only; proofs in Proofs/MachineP.v.  Tied to rebench/executor.py and rebench/rebench.py by
    harness/c10.py. *)
From Coq Require Import List ZArith Bool Arith.
Import ListNotations.
From RV Require Import Gen.GenTermination Model.Retry Model.Machine Proofs.MachineP.

(** Containment: take two worlds that agree on run r (its description, what its processes do, the
    builds it needs) and differ arbitrarily in every other run - other runs may succeed, fail from
    the start, fail after k successes, need failing builds, have no adapter.  Under any two orders
    that finish r, r ends in the same state with the same starts and recordings. *)
Theorem C10_containment :
  forall w1 w2 ps1 ps2 loaded r,
    no127 w1 -> no127 w2 -> agree_on w1 w2 r ->
    fin_at (session w1 ps1 (ginit loaded)) r -> fin_at (session w2 ps2 (ginit loaded)) r ->
    g_loc (session w1 ps1 (ginit loaded)) r = g_loc (session w2 ps2 (ginit loaded)) r
    /\ starts_recs r (g_trace (session w1 ps1 (ginit loaded))) = starts_recs r (g_trace (session w2 ps2 (ginit loaded))).
Proof. intros. apply containment; try assumption; reflexivity. Qed.
Print Assumptions C10_containment.

(** The exit status is 0 exactly if every run has its configured invocations recorded, or -f. *)
Theorem C10_exit_spec :
  forall w g,
    exit_ok w g = true <->
    (forall r, (r < w_n w)%nat -> (r_invocations (d_cfg (w_desc w r)) <= s_completed (l_st (g_loc g r)))%Z)
    \/ w_faulty w = true.
Proof. exact exit_spec. Qed.
Print Assumptions C10_exit_spec.

(** A run that is complete when the session starts is not started and keeps its progress (so it
    counts as a success for the exit status). *)
Theorem C10_complete_run_not_started :
  forall w ps loaded r,
    no127 w ->
    terminated (d_cfg (w_desc w r)) (rstate_init (fst (loaded r)) (snd (loaded r))) = true ->
    starts_recs r (g_trace (session w ps (ginit loaded))) = []
    /\ s_completed (l_st (g_loc (session w ps (ginit loaded)) r)) = fst (loaded r).
Proof. exact complete_run_not_started. Qed.
Print Assumptions C10_complete_run_not_started.

(** A run needing a build that fails is never started. *)
Theorem C10_failed_build_contained :
  forall w ps loaded r b,
    w_builds w = true -> In b (d_blds (w_desc w r)) -> w_bh w b = false ->
    forall inv, ~ In (r, GStart inv) (g_trace (session w ps (ginit loaded))).
Proof. exact failed_build_no_start. Qed.
Print Assumptions C10_failed_build_contained.

(** Non-vacuity: run 0 always fails, run 1 succeeds; and the same run 1 next to a succeeding run 0. *)
Definition w_fail : world :=
  {| w_n := 2;
     w_desc := fun r => {| d_cfg := {| r_invocations := 2; r_retries := 1; r_warmup := 0; r_ignore_timeouts := false |};
                           d_exe := r; d_blds := []; d_adapter_ok := true |};
     w_harness := fun r inv k => if Nat.eqb r 0 then OExit 1 Unparsable else OExit 0 (Parsable 1);
     w_bh := fun _ => true; w_faulty := false; w_builds := true |}.
Definition w_fine : world :=
  {| w_n := 2; w_desc := w_desc w_fail; w_harness := fun r inv k => OExit 0 (Parsable 1);
     w_bh := fun _ => true; w_faulty := false; w_builds := true |}.
Example C10_example :
  let g1 := session w_fail [0; 1; 0; 1]%nat (ginit (fun _ => (0, 0)%Z)) in
  let g2 := session w_fine [1; 1; 0; 0]%nat (ginit (fun _ => (0, 0)%Z)) in
  all_finished w_fail g1 = true /\ all_finished w_fine g2 = true
  /\ starts_recs 1 (g_trace g1) = starts_recs 1 (g_trace g2)
  /\ exit_ok w_fail g1 = false /\ exit_ok w_fine g2 = true.
Proof. vm_compute. repeat split; reflexivity. Qed.
