(** C10 - failures stay contained; the exit status tells the truth.
    Statements only; proofs in Proofs/MachineP.v.  Tied to rebench/executor.py and rebench/rebench.py by
    harness/c10.py. *)
From Coq Require Import List ZArith Bool Arith Lia.
Import ListNotations.
From RV Require Import Gen.GenTermination Model.Retry Model.Machine Proofs.MachineP.
From RV Require Import Lib.Str Model.Format Gen.GenUi Gen.GenMain Proofs.FormatP Gen.GenFilter Model.FilterArgs Proofs.FilterArgsP Gen.GenMessages.

(** Containment: take two worlds that agree on run r (its description, what its processes do, the
    builds it needs) and differ arbitrarily in every other run - other runs may succeed, fail from
    the start, fail after k successes, need failing builds, have no adapter.  Under any two orders
    that finish r, r ends in the same state with the same starts and recordings. *)
Theorem C10_containment :
  forall w1 w2 ps1 ps2 loaded r,
    no127 w1 -> no127 w2 -> agree_on w1 w2 r ->
    fin_at (session w1 ps1 (ginit loaded)) r -> fin_at (session w2 ps2 (ginit loaded)) r ->
    g_loc (session w1 ps1 (ginit loaded)) r = g_loc (session w2 ps2 (ginit loaded)) r
    /\ starts_recs r (g_trace (session w1 ps1 (ginit loaded))) = starts_recs r (g_trace (session w2 ps2 (ginit loaded))).
Proof. intros. apply containment; try assumption; reflexivity. Qed.
Print Assumptions C10_containment.

(** The exit status is 0 exactly if every run has its configured invocations recorded, or -f. *)
Theorem C10_exit_spec :
  forall w g,
    exit_ok w g = true <->
    (forall r, (r < w_n w)%nat -> (r_invocations (d_cfg (w_desc w r)) <= s_completed (l_st (g_loc g r)))%Z)
    \/ w_faulty w = true.
Proof. exact exit_spec. Qed.
Print Assumptions C10_exit_spec.

(** A run that is complete when the session starts is not started and keeps its progress (so it
    counts as a success for the exit status). *)
Theorem C10_complete_run_not_started :
  forall w ps loaded r,
    no127 w ->
    terminated (d_cfg (w_desc w r)) (rstate_init (fst (loaded r)) (snd (loaded r))) = true ->
    starts_recs r (g_trace (session w ps (ginit loaded))) = []
    /\ s_completed (l_st (g_loc (session w ps (ginit loaded)) r)) = fst (loaded r).
Proof. exact complete_run_not_started. Qed.
Print Assumptions C10_complete_run_not_started.

(** A run needing a build that fails is never started. *)
Theorem C10_failed_build_contained :
  forall w ps loaded r b,
    w_builds w = true -> In b (d_blds (w_desc w r)) -> w_bh w b = false ->
    forall inv, ~ In (r, GStart inv) (g_trace (session w ps (ginit loaded))).
Proof. exact failed_build_no_start. Qed.
Print Assumptions C10_failed_build_contained.

(** The process exit status (main_func is read off rebench/rebench.py on every run, Gen/GenMain.v):
    0 when the session result is true, 1 when it is false, 2 on a user abort, 3 on a usage or
    configuration error. *)
Theorem C10_exit_codes :
  exit_status RTrue = Some 0%Z /\ exit_status RFalse = Some 1%Z
  /\ exit_status RKeyboardInterrupt = Some 2%Z /\ exit_status RUIError = Some 3%Z.
Proof. repeat split; reflexivity. Qed.
Print Assumptions C10_exit_codes.

(** ... so a session exits with 0 exactly if every run has its configured invocations recorded, or -f,
    and with 1 otherwise. *)
Theorem C10_exit_status_of_session :
  forall w g,
    let st := exit_status (if exit_ok w g then RTrue else RFalse) in
    (st = Some 0%Z <->
       (forall r, (r < w_n w)%nat -> (r_invocations (d_cfg (w_desc w r)) <= s_completed (l_st (g_loc g r)))%Z)
       \/ w_faulty w = true)
    /\ (st = Some 0%Z \/ st = Some 1%Z).
Proof.
  intros w g st. unfold st. pose proof (exit_spec w g) as E. pose proof C10_exit_codes as [H0 [H1 _]].
  destruct (exit_ok w g); rewrite ?H0, ?H1; split.
  - split; [intros _; apply E; reflexivity | reflexivity].
  - left. reflexivity.
  - split; [discriminate | intros H; apply E in H; discriminate].
  - right. reflexivity.
Qed.
Print Assumptions C10_exit_status_of_session.

(** No message can break the output: every message the UI prints is a str.format template rendered with
    the keyword `ind`.  For EVERY text - command, name, directory, environment value, program output,
    YAML error, file name - escape_braces (read off ui.py) makes it literal: it is printed verbatim. *)
Theorem C10_escaped_text_is_literal :
  forall ind s, py_format ind (escape_braces s) = FOk s.
Proof. exact format_escape. Qed.
Print Assumptions C10_escaped_text_is_literal.

(** A message assembled from well-formed template text, the indent placeholder and escaped text
    renders without an error, and shows each text unchanged; the run details header of ui.py is
    assembled that way (details_escaped), so are the diagnostics about improper format strings in a command
    (format_issue_messages_escaped), output goes through that rendering (output_passes_ind),
    configuration errors are turned into UIError with an escaped message and printed through it. *)
Theorem C10_messages_never_fail :
  (forall ind ps,
     (forall t, In (PLit t) ps -> exists r, py_format ind t = FOk r) ->
     py_format ind (concat (map piece_tmpl ps)) = FOk (concat (map (piece_text ind) ps)))
  /\ details_escaped = true /\ output_passes_ind = true /\ format_issue_messages_escaped = true
  /\ config_errors_are_ui_errors = true /\ ui_error_printed_through_format = true
  /\ (forall ind m, py_format ind ([10%N] ++ escape_braces m ++ [10%N]) = FOk ([10%N] ++ m ++ [10%N])).
Proof.
  split; [exact message_renders|]. repeat split; try reflexivity.
  intros ind m. apply (format_app ind [10%N] (escape_braces m ++ [10%N]) [10%N] (m ++ [10%N])); [reflexivity|].
  apply format_app; [apply format_escape | reflexivity].
Qed.
Print Assumptions C10_messages_never_fail.

(** EVERY text that reaches the renderer, anywhere in rebench/ (Gen/GenMessages.v lists each call of a rendering method of the UI
    and each UIError construction, read off all modules on every run): it is assembled only from template text, the indent
    placeholder, numbers and text that went through escape_braces (all_messages_clean - false before the repairs c2f9cca and
    306ca56, when names, paths, exception texts and server responses were concatenated as they came).  The fragments of
    template text all render, for any indent; hence ANY assembly of them - any order, any number of repetitions, any escaped
    texts, any numbers - renders and shows each escaped text unchanged. *)
Theorem C10_every_message_renders :
  all_messages_clean = true /\ (60 <= n_message_sites)%nat
  /\ forallb renders message_literals = true
  /\ (forall ind ps,
        (forall t, In (PLit t) ps -> In t message_literals \/ brace_free t = true) ->
        py_format ind (concat (map piece_tmpl ps)) = FOk (concat (map (piece_text ind) ps))).
Proof.
  split; [vm_compute; reflexivity|]. split; [vm_compute; lia|]. split; [vm_compute; reflexivity|].
  apply assembled_message_renders. vm_compute. reflexivity.
Qed.
Print Assumptions C10_every_message_renders.

(** Usage errors: every argument after the experiment name reaches the filter chain of _RunFilter (read off
    rebench.py and configurator.py on every run).  For EVERY argument string the chain either accepts it through one
    of its branches or ends in the ConfigurationError that becomes the diagnostic with exit status 3 - it can never
    index beyond the parts the argument has (an IndexError traceback; before the repair ff11444 the argument `e` did). *)
Theorem C10_filter_arguments_total :
  (forall s, classify_arg s <> FIndexError)
  /\ chain_ends_in_configuration_error = true /\ every_argument_reaches_the_filters = true.
Proof. split; [exact filter_arguments_total | split; reflexivity]. Qed.
Print Assumptions C10_filter_arguments_total.

Example C10_filter_examples :
  classify_arg [101]%N = FUnknown /\ classify_arg [101; 58; 69]%N = FAccept 0 LExecutor
  /\ classify_arg [115; 58; 83; 58; 66]%N = FAccept 2 LSuite /\ classify_arg [116; 58; 97; 58; 98]%N = FUnknown
  /\ classify_arg [113; 58; 122]%N = FUnknown.
Proof. vm_compute. repeat split; reflexivity. Qed.

(** Non-vacuity: run 0 always fails, run 1 succeeds; and the same run 1 next to a succeeding run 0. *)
Definition w_fail : world :=
  {| w_n := 2;
     w_desc := fun r => {| d_cfg := {| r_invocations := 2; r_retries := 1; r_warmup := 0; r_ignore_timeouts := false |};
                           d_exe := r; d_blds := []; d_adapter_ok := true |};
     w_harness := fun r inv k => if Nat.eqb r 0 then OExit 1 Unparsable else OExit 0 (Parsable 1);
     w_bh := fun _ => true; w_faulty := false; w_builds := true |}.
Definition w_fine : world :=
  {| w_n := 2; w_desc := w_desc w_fail; w_harness := fun r inv k => OExit 0 (Parsable 1);
     w_bh := fun _ => true; w_faulty := false; w_builds := true |}.
Example C10_example :
  let g1 := session w_fail [0; 1; 0; 1]%nat (ginit (fun _ => (0, 0)%Z)) in
  let g2 := session w_fine [1; 1; 0; 0]%nat (ginit (fun _ => (0, 0)%Z)) in
  all_finished w_fail g1 = true /\ all_finished w_fine g2 = true
  /\ starts_recs 1 (g_trace g1) = starts_recs 1 (g_trace g2)
  /\ exit_ok w_fail g1 = false /\ exit_ok w_fine g2 = true.
Proof. vm_compute. repeat split; reflexivity. Qed.
