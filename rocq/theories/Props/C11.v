(** C11 - execution order never changes what is executed or recorded.
    Statements only; proofs in Proofs/MachineP.v.  A session is a fold over a list of picks; batch,
    round-robin and every seed of random are particular pick lists.  The model is tied to
    rebench/executor.py by harness/c11.py (real sessions under the three sequential schedulers and the
    parallel scheduler, compared event by event with Model.Machine). *)
From Coq Require Import List ZArith Bool Arith.
Import ListNotations.
From RV Require Import Gen.GenTermination Model.Retry Model.Machine Proofs.MachineP.
From RV Require Import Gen.GenFactsPersist Gen.GenFactsBuild Gen.GenPar Model.Par Proofs.ParP.
From Coq Require Import Permutation.

(** Any two orders that finish run r leave it in the same state (same invocations recorded, same
    failure counters, same samples) and produce the same sequence of process starts and recordings
    for it - whatever the other runs do, fail or retry.  Exit status 127 is excluded: there the
    group abort (C04) makes the started member depend on the order, see DESIGN.md. *)
Theorem C11_seq_order_free :
  forall w ps1 ps2 loaded r,
    no127 w ->
    fin_at (session w ps1 (ginit loaded)) r -> fin_at (session w ps2 (ginit loaded)) r ->
    g_loc (session w ps1 (ginit loaded)) r = g_loc (session w ps2 (ginit loaded)) r
    /\ starts_recs r (g_trace (session w ps1 (ginit loaded))) = starts_recs r (g_trace (session w ps2 (ginit loaded))).
Proof. intros. apply seq_order_free; assumption. Qed.
Print Assumptions C11_seq_order_free.

(** What a session did with run r is a function of how often r was picked only. *)
Theorem C11_local :
  forall w ps loaded r,
    no127 w ->
    g_loc (session w ps (ginit loaded)) r = iterl w r (count_occ Nat.eq_dec ps r) (g_loc (ginit loaded) r)
    /\ starts_recs r (g_trace (session w ps (ginit loaded))) =
       flat_map ev_sr (iterev w r (count_occ Nat.eq_dec ps r) (g_loc (ginit loaded) r)).
Proof.
  intros w ps loaded r H. split; [apply session_loc_no127; exact H|].
  rewrite session_trace_no127 by exact H. reflexivity.
Qed.
Print Assumptions C11_local.

(** Exit status 127, the order-independent part: once a member of a group got 127, every other
    member is finished and is never started afterwards. *)
Theorem C11_missing_group :
  forall w g i j ps,
    lhit w i (g_loc g i) = true -> (j < w_n w)%nat -> j <> i -> d_exe (w_desc w j) = d_exe (w_desc w i) ->
    starts_recs j (g_trace (session w ps (gstep w g i))) = starts_recs j (g_trace (gstep w g i)).
Proof.
  intros. apply finished_run_never_started_again. apply missing_executable_aborts_group; assumption.
Qed.
Print Assumptions C11_missing_group.

(** The data point is written and flushed inside the persistence lock (read off
    _FilePersistence.persist_data_point on every run): under the parallel scheduler the lines of
    one data point are written by one thread without another thread's lines in between. *)
Theorem C11_persist_locked : persist_locked = true.
Proof. reflexivity. Qed.
Print Assumptions C11_persist_locked.

(** The parallel scheduler (its arithmetic and the shape of its loops are read off
    rebench/executor.py on every run, Gen/GenPar.v): on a machine with any number of cores it has
    at least one worker thread, ... *)
Theorem C11_par_threads : forall cores, (1 <= num_threads cores)%Z.
Proof. exact num_threads_pos. Qed.
Print Assumptions C11_par_threads.

(** ... acquire_work is one step under the scheduler's lock that pops the next chunk, every worker
    calls it until nothing remains, one worker exists per thread number and all are joined; what the
    workers share besides the data file - the build state - is checked and changed under ONE lock
    (build_locked), so a whole execute_run call is a step of the session model, ... *)
Theorem C11_par_structure :
  acquire_locked = true /\ acquire_pops = true /\ workers_loop = true /\ one_worker_per_thread = true
  /\ build_locked = true.
Proof. repeat split; reflexivity. Qed.
Print Assumptions C11_par_structure.

(** ... and so, for every core count and every schedule of the workers (which worker makes the next
    call), all non-exclusive runs are handed out: nothing remains, the chunks the workers received
    are together exactly these runs, each once, none is empty, each goes to an existing worker.
    Each worker runs a sequential scheduler over its chunks, so the whole session is one
    interleaving of picks that finishes every run: C11_seq_order_free applies to it. *)
Theorem C11_par_hand_out_exact : forall (A : Type) cores sched (runs : list A),
  let threads := Z.to_nat (num_threads cores) in
  let got := deal threads sched (fst (hand_out cores runs)) in
  1 <= threads
  /\ snd (hand_out cores runs) = []
  /\ Permutation (concat (map snd got)) runs
  /\ Forall (fun wc => fst wc < threads /\ snd wc <> []) got.
Proof. exact hand_out_exact. Qed.
Print Assumptions C11_par_hand_out_exact.

(** Non-vacuity: two cores (the case that started no worker before the repair d7709ba), five runs. *)
Example C11_par_example :
  num_threads 2 = 1%Z /\ hand_out 2 [10; 11; 12; 13; 14] = ([[14; 13; 12; 11; 10]], [])
  /\ num_threads 16 = 6%Z /\ hand_out 16 (seq 0 8) = ([[7]; [6]; [5]; [4]; [3]; [2]; [1]; [0]], []).
Proof. vm_compute. repeat split; reflexivity. Qed.

(** Non-vacuity: two runs, the first fails once and is retried; batch order and an interleaved order. *)
Definition ex_world : world :=
  {| w_n := 2;
     w_desc := fun r => {| d_cfg := {| r_invocations := 2; r_retries := 2; r_warmup := 0; r_ignore_timeouts := false |};
                           d_exe := r; d_blds := [7%nat]; d_adapter_ok := true |};
     w_harness := fun r inv k => if (Nat.eqb r 0 && Nat.eqb k 1)%bool then OExit 1 Unparsable else OExit 0 (Parsable 1);
     w_bh := fun _ => true; w_faulty := false; w_builds := true |}.
Example C11_example :
  let g1 := session ex_world [0; 0; 0; 1; 1]%nat (ginit (fun _ => (0, 0)%Z)) in
  let g2 := session ex_world [1; 0; 1; 0; 0]%nat (ginit (fun _ => (0, 0)%Z)) in
  all_finished ex_world g1 = true /\ all_finished ex_world g2 = true
  /\ starts_recs 0 (g_trace g1) = [GStart 1; GRec 1 1; GStart 2; GStart 2; GRec 2 1]
  /\ starts_recs 0 (g_trace g2) = starts_recs 0 (g_trace g1)
  /\ blds (g_trace g1) = [7%nat] /\ blds (g_trace g2) = [7%nat].
Proof. vm_compute. repeat split; reflexivity. Qed.
