(** C11 - execution order never changes what is executed or recorded.
    Statements only; proofs in Proofs/MachineP.v.  A session is a fold over a list of picks; batch,
    round-robin and every seed of random are particular pick lists.  The model is tied to
    rebench/executor.py by harness/c11.py (real sessions under the three sequential schedulers and the
    parallel scheduler, compared event by event with Model.Machine). *)
From Coq Require Import List ZArith Bool Arith.
Import ListNotations.
From RV Require Import Gen.GenTermination Model.Retry Model.Machine Proofs.MachineP.
From RV Require Import Gen.GenFactsPersist Gen.GenFactsBuild Gen.GenPar Model.Par Proofs.ParP Proofs.SchedP.
From Coq Require Import Permutation Lia.

(** Any two orders that finish run r leave it in the same state (same invocations recorded, same
    failure counters, same samples) and produce the same sequence of process starts and recordings
    for it - whatever the other runs do, fail or retry.  Exit status 127 is excluded: there the
    group abort (C04) makes the started member depend on the order, see DESIGN.md. *)
Theorem C11_seq_order_free :
  forall w ps1 ps2 loaded r,
    no127 w ->
    fin_at (session w ps1 (ginit loaded)) r -> fin_at (session w ps2 (ginit loaded)) r ->
    g_loc (session w ps1 (ginit loaded)) r = g_loc (session w ps2 (ginit loaded)) r
    /\ starts_recs r (g_trace (session w ps1 (ginit loaded))) = starts_recs r (g_trace (session w ps2 (ginit loaded))).
Proof. intros. apply seq_order_free; assumption. Qed.
Print Assumptions C11_seq_order_free.

(** What a session did with run r is a function of how often r was picked only. *)
Theorem C11_local :
  forall w ps loaded r,
    no127 w ->
    g_loc (session w ps (ginit loaded)) r = iterl w r (count_occ Nat.eq_dec ps r) (g_loc (ginit loaded) r)
    /\ starts_recs r (g_trace (session w ps (ginit loaded))) =
       flat_map ev_sr (iterev w r (count_occ Nat.eq_dec ps r) (g_loc (ginit loaded) r)).
Proof.
  intros w ps loaded r H. split; [apply session_loc_no127; exact H|].
  rewrite session_trace_no127 by exact H. reflexivity.
Qed.
Print Assumptions C11_local.

(** The schedulers themselves.  Model.batch_run / rr_run / rnd_run (compared event by event with the real
    BatchScheduler, RoundRobinScheduler and RandomScheduler, the latter on the observed random choices)
    are sessions over picks from the work list, and with enough fuel - the sum over the runs of
    (invocations still to record + 7 failures, +1) plus the length of the list, for the random scheduler
    also that many choices - they finish every run of the list, for EVERY list of random choices (every
    seed). *)
Theorem C11_schedulers_are_sessions_and_finish :
  forall w loaded fuel choice,
    let g0 := ginit loaded in
    let todo := unfinished_at_start w g0 in
    gmeas w g0 + length todo <= fuel -> fuel <= length choice ->
    (exists ps, batch_run w fuel g0 todo = session w ps g0 /\ forall p, In p ps -> In p todo)
    /\ (exists ps, rr_run w fuel g0 todo = session w ps g0 /\ forall p, In p ps -> In p todo)
    /\ (exists ps, rnd_run w fuel choice g0 todo = session w ps g0 /\ forall p, In p ps -> In p todo)
    /\ forall r, In r todo ->
         fin_at (batch_run w fuel g0 todo) r /\ fin_at (rr_run w fuel g0 todo) r /\ fin_at (rnd_run w fuel choice g0 todo) r.
Proof.
  intros w loaded fuel choice g0 todo Hf Hc.
  assert (Hb : forall r, In r todo -> r < w_n w).
  { intros r Hr. unfold todo, unfinished_at_start in Hr. apply filter_In in Hr. destruct Hr as [Hr _]. apply in_seq in Hr. lia. }
  split; [apply batch_is_session|]. split; [apply rr_is_session|]. split; [apply rnd_is_session|].
  intros r Hr. split; [|split].
  - apply batch_finishes; assumption.
  - apply rr_finishes; assumption.
  - apply rnd_finishes; assumption.
Qed.
Print Assumptions C11_schedulers_are_sessions_and_finish.

(** Hence (no exit status 127, see below): under batch, round-robin and random with ANY choices every run of
    the work list ends in the same state, with the same sequence of process starts and recordings. *)
Theorem C11_schedulers_agree :
  forall w loaded fuel choice1 choice2 r,
    let g0 := ginit loaded in
    let todo := unfinished_at_start w g0 in
    no127 w -> gmeas w g0 + length todo <= fuel -> fuel <= length choice1 -> fuel <= length choice2 -> In r todo ->
    let b := batch_run w fuel g0 todo in
    let rr := rr_run w fuel g0 todo in
    let r1 := rnd_run w fuel choice1 g0 todo in
    let r2 := rnd_run w fuel choice2 g0 todo in
    g_loc rr r = g_loc b r /\ g_loc r1 r = g_loc b r /\ g_loc r2 r = g_loc b r
    /\ starts_recs r (g_trace rr) = starts_recs r (g_trace b)
    /\ starts_recs r (g_trace r1) = starts_recs r (g_trace b)
    /\ starts_recs r (g_trace r2) = starts_recs r (g_trace b).
Proof.
  intros w loaded fuel choice1 choice2 r g0 todo Hn Hf Hc1 Hc2 Hr b rr r1 r2.
  destruct (C11_schedulers_are_sessions_and_finish w loaded fuel choice1 Hf Hc1) as [[pb [Eb _]] [[pr [Er _]] [[p1 [E1 _]] F1]]].
  destruct (C11_schedulers_are_sessions_and_finish w loaded fuel choice2 Hf Hc2) as [_ [_ [[p2 [E2 _]] F2]]].
  destruct (F1 r Hr) as [Fb [Frr Fr1]]. destruct (F2 r Hr) as [_ [_ Fr2]].
  fold g0 todo in Eb, Er, E1, E2, Fb, Frr, Fr1, Fr2. unfold b, rr, r1, r2.
  rewrite Eb, Er, E1, E2 in *.
  destruct (seq_order_free w pr pb g0 r Hn Frr Fb) as [A1 A2].
  destruct (seq_order_free w p1 pb g0 r Hn Fr1 Fb) as [B1 B2].
  destruct (seq_order_free w p2 pb g0 r Hn Fr2 Fb) as [C1 C2].
  repeat split; assumption.
Qed.
Print Assumptions C11_schedulers_agree.

(** Exit status 127, the order-independent part: once a member of a group got 127, every other
    member is finished and is never started afterwards. *)
Theorem C11_missing_group :
  forall w g i j ps,
    lhit w i (g_loc g i) = true -> (j < w_n w)%nat -> j <> i -> d_exe (w_desc w j) = d_exe (w_desc w i) ->
    starts_recs j (g_trace (session w ps (gstep w g i))) = starts_recs j (g_trace (gstep w g i)).
Proof.
  intros. apply finished_run_never_started_again. apply missing_executable_aborts_group; assumption.
Qed.
Print Assumptions C11_missing_group.

(** The data point is written and flushed inside the persistence lock (read off
    _FilePersistence.persist_data_point on every run): under the parallel scheduler the lines of
    one data point are written by one thread without another thread's lines in between. *)
Theorem C11_persist_locked : persist_locked = true.
Proof. reflexivity. Qed.
Print Assumptions C11_persist_locked.

(** The parallel scheduler (its arithmetic and the shape of its loops are read off
    rebench/executor.py on every run, Gen/GenPar.v): on a machine with any number of cores it has
    at least one worker thread, ... *)
Theorem C11_par_threads : forall cores, (1 <= num_threads cores)%Z.
Proof. exact num_threads_pos. Qed.
Print Assumptions C11_par_threads.

(** ... acquire_work is one step under the scheduler's lock that pops the next chunk, every worker
    calls it until nothing remains, one worker exists per thread number and all are joined; what the
    workers share besides the data file - the build state - is checked and changed under ONE lock
    (build_locked), so a whole execute_run call is a step of the session model, ... *)
Theorem C11_par_structure :
  acquire_locked = true /\ acquire_pops = true /\ workers_loop = true /\ one_worker_per_thread = true
  /\ build_locked = true.
Proof. repeat split; reflexivity. Qed.
Print Assumptions C11_par_structure.

(** ... and so, for every core count and every schedule of the workers (which worker makes the next
    call), all non-exclusive runs are handed out: nothing remains, the chunks the workers received
    are together exactly these runs, each once, none is empty, each goes to an existing worker.
    Each worker runs a sequential scheduler over its chunks, so the whole session is one
    interleaving of picks that finishes every run: C11_seq_order_free applies to it. *)
Theorem C11_par_hand_out_exact : forall (A : Type) cores sched (runs : list A),
  let threads := Z.to_nat (num_threads cores) in
  let got := deal threads sched (fst (hand_out cores runs)) in
  1 <= threads
  /\ snd (hand_out cores runs) = []
  /\ Permutation (concat (map snd got)) runs
  /\ Forall (fun wc => fst wc < threads /\ snd wc <> []) got.
Proof. exact hand_out_exact. Qed.
Print Assumptions C11_par_hand_out_exact.

(** Non-vacuity: two cores (the case that started no worker before the repair d7709ba), five runs. *)
Example C11_par_example :
  num_threads 2 = 1%Z /\ hand_out 2 [10; 11; 12; 13; 14] = ([[14; 13; 12; 11; 10]], [])
  /\ num_threads 16 = 6%Z /\ hand_out 16 (seq 0 8) = ([[7]; [6]; [5]; [4]; [3]; [2]; [1]; [0]], []).
Proof. vm_compute. repeat split; reflexivity. Qed.

(** Non-vacuity: two runs, the first fails once and is retried; batch order and an interleaved order. *)
Definition ex_world : world :=
  {| w_n := 2;
     w_desc := fun r => {| d_cfg := {| r_invocations := 2; r_retries := 2; r_warmup := 0; r_ignore_timeouts := false |};
                           d_exe := r; d_blds := [7%nat]; d_adapter_ok := true |};
     w_harness := fun r inv k => if (Nat.eqb r 0 && Nat.eqb k 1)%bool then OExit 1 Unparsable else OExit 0 (Parsable 1);
     w_bh := fun _ => true; w_faulty := false; w_builds := true |}.
Example C11_example :
  let g1 := session ex_world [0; 0; 0; 1; 1]%nat (ginit (fun _ => (0, 0)%Z)) in
  let g2 := session ex_world [1; 0; 1; 0; 0]%nat (ginit (fun _ => (0, 0)%Z)) in
  all_finished ex_world g1 = true /\ all_finished ex_world g2 = true
  /\ starts_recs 0 (g_trace g1) = [GStart 1; GRec 1 1; GStart 2; GStart 2; GRec 2 1]
  /\ starts_recs 0 (g_trace g2) = starts_recs 0 (g_trace g1)
  /\ blds (g_trace g1) = [7%nat] /\ blds (g_trace g2) = [7%nat].
Proof. vm_compute. repeat split; reflexivity. Qed.

(** Non-vacuity of the scheduler theorems: the fuel bound is met by 40 steps for the example world, and the
    three schedulers (two lists of random choices) end with the same starts and recordings for run 0. *)
Example C11_schedulers_example :
  let g0 := ginit (fun _ => (0, 0)%Z) in
  let todo := unfinished_at_start ex_world g0 in
  gmeas ex_world g0 + length todo <= 40
  /\ starts_recs 0 (g_trace (batch_run ex_world 40 g0 todo)) = [GStart 1; GRec 1 1; GStart 2; GStart 2; GRec 2 1]
  /\ starts_recs 0 (g_trace (rr_run ex_world 40 g0 todo)) = starts_recs 0 (g_trace (batch_run ex_world 40 g0 todo))
  /\ starts_recs 0 (g_trace (rnd_run ex_world 40 (repeat 1 40) g0 todo)) = starts_recs 0 (g_trace (batch_run ex_world 40 g0 todo))
  /\ starts_recs 0 (g_trace (rnd_run ex_world 40 (seq 0 40) g0 todo)) = starts_recs 0 (g_trace (batch_run ex_world 40 g0 todo)).
Proof. vm_compute. repeat split; try reflexivity. lia. Qed.

