(** C01 - Scheduled runs are exactly the configured cross product, filtered. *)
From Coq Require Import List Bool.
Import ListNotations.
From RV Require Import Lib.Str Model.Settings Model.Compile Proofs.CompileP Gen.GenFilterMatch Proofs.FilterMatchP.

(** Whenever a configuration and selection compile, the result has no duplicates (runs of
    different experiments that agree in every configuration detail are one run) and contains
    exactly the runs of [spec_runs]: for each selected experiment, each listed execution's
    executor paired with each benchmark of that execution's suites (its own `suites`, else the
    experiment's), once for every combination of the benchmark's effective cores, input sizes,
    variable values and tags, kept iff every filter group given has a matching filter. *)
Theorem C01_exact :
  forall cfg sel rs, compile cfg sel = Ok rs ->
    NoDup rs /\ forall r, In r rs <-> spec_runs cfg sel r.
Proof. exact compile_exact. Qed.
Print Assumptions C01_exact.

(** filter groups: or within a group, and across groups; an empty group keeps everything *)
Theorem C01_filter_group_semantics :
  forall (A : Type) (fs : list A) (m : A -> bool),
    group_ok fs m = true <-> fs = [] \/ exists f, In f fs /\ m f = true.
Proof. exact @group_ok_spec. Qed.
Print Assumptions C01_filter_group_semantics.

Theorem C01_selected_runs_pass_every_group :
  forall cfg sel rs r, compile cfg sel = Ok rs -> In r rs ->
    group_ok (f_exec (sel_filters sel)) (fun n => str_eqb n (k_executor r)) = true
    /\ group_ok (f_suite (sel_filters sel)) (suite_filter_matches (k_suite r) (k_bench r)) = true
    /\ tag_selected (sel_filters sel) (k_tag r) = true.
Proof. exact selected_runs_pass_filters. Qed.
Print Assumptions C01_selected_runs_pass_every_group.

(** The filter semantics used above is the code's: the matches methods of the four filter classes, _RunFilter._match,
    applies_to_bench and applies_to_tag are translated from configurator.py on every run (Gen/GenFilterMatch.v), and the
    objects _RunFilter.__init__ builds are the documented ones (e:X, s:S, s:S:B, t:T).  For EVERY filter list, benchmark
    and tag the model's selection equals what the translated methods return on those objects. *)
Theorem C01_filters_are_the_code :
  filter_constructors_as_documented = true
  /\ (forall fl e s b,
        bench_selected fl e s b
        = gen_applies_to_bench (executor_objects (f_exec fl)) (suite_objects (f_suite fl))
                               {| bv_executor := e; bv_suite := s; bv_name := b |})
  /\ (forall fl t, tag_selected fl (SStr t) = gen_applies_to_tag (tag_objects (f_tag fl)) t).
Proof. split; [reflexivity|]. split; [exact bench_selected_is_applies_to_bench | exact tag_selected_is_applies_to_tag]. Qed.
Print Assumptions C01_filters_are_the_code.
