(** C09 - the data file stays loadable and unmixed after a crash at any write point.
    Statements only; proofs in Proofs/DataFileP.v.  Line-level model of a torn append: the first
    k lines of what the session would have written arrived, the next one possibly in part (a last
    line without line end); the following session's first line is glued to that part.  Which kind
    of line the glued text is (comment / unreadable record / garbage) is decided byte by byte on
    the real loader by harness/c09.py, for every byte prefix. *)
From Coq Require Import List ZArith NArith Bool Arith.
Import ListNotations.
From RV Require Import Lib.Str Model.DataFile Proofs.DataFileP.

(** Right after the crash, for every cut: the file loads, and exactly the data points whose lines
    arrived completely are there - each once, whole, for the right run (j of them, where the lines
    of the first j fit into the cut and those of j+1 do not). *)
Theorem C09_torn_file_loads :
  forall file dps k g,
    crashed (load file) = false -> Forall dp_ok dps ->
    let app := session_lines file dps in
    let t := torn_now file app k g in
    crashed (load t) = false /\
    exists j new,
      j <= length dps /\
      loaded (load t) = loaded (load file) ++ new /\ map dp_view new = map nd_view (firstn j dps) /\
      length (session_lines file (firstn j dps)) <= k /\
      (j < length dps -> k < length (session_lines file (firstn (S j) dps))).
Proof. exact torn_load. Qed.
Print Assumptions C09_torn_file_loads.

(** After a later session recorded behind the torn tail: the file still loads; what was loaded
    before is unchanged and the new data points are exactly those recorded - no data point mixes
    measurements of before and after the cut, nothing is lost or counted twice. *)
Theorem C09_resumed_file_unmixed :
  forall file dps k g dps2,
    crashed (load file) = false -> Forall dp_ok dps -> Forall dp_ok dps2 -> dps2 <> [] -> g <> GNone ->
    let app := session_lines file dps in
    let t1 := torn_now file app k g in
    let t2 := torn_then file app k g (session_lines t1 dps2) in
    crashed (load t2) = false /\
    exists new2, loaded (load t2) = loaded (load t1) ++ new2 /\ map dp_view new2 = map nd_view dps2.
Proof. exact torn_then_resumed. Qed.
Print Assumptions C09_resumed_file_unmixed.

(** A cut at a line boundary (nothing glued) is an ordinary loadable file for the next session. *)
Theorem C09_boundary_cut_then_session :
  forall file dps k dps2,
    crashed (load file) = false -> Forall dp_ok dps -> Forall dp_ok dps2 ->
    let t1 := torn_now file (session_lines file dps) k GNone in
    crashed (load (t1 ++ session_lines t1 dps2)) = false /\
    exists new2, loaded (load (t1 ++ session_lines t1 dps2)) = loaded (load t1) ++ new2
                 /\ map dp_view new2 = map nd_view dps2.
Proof.
  intros file dps k dps2 Hc Hok Hok2 t1.
  destruct (torn_load file dps k GNone Hc Hok) as [C1 _]. fold t1 in C1.
  exact (session_roundtrip t1 dps2 C1 Hok2).
Qed.
Print Assumptions C09_boundary_cut_then_session.

(** Non-vacuity: a data point of two lines, cut after its first line, then resumed. *)
Example C09_example :
  let d1 := {| n_run := 7; n_bench := 3; n_inv := 1; n_ms := [(1, true, 5%Z)] |} in
  let d2 := {| n_run := 7; n_bench := 3; n_inv := 2; n_ms := [(1, false, 6%Z); (1, true, 7%Z)] |} in
  let d3 := {| n_run := 7; n_bench := 3; n_inv := 2; n_ms := [(1, false, 8%Z); (1, true, 9%Z)] |} in
  let app := session_lines [] [d1; d2] in
  let t1 := torn_now [] app 9 GGarbage in
  let t2 := torn_then [] app 9 GGarbage (session_lines t1 [d3]) in
  length app = 10
  /\ map dp_view (loaded (load t1)) = [nd_view d1]
  /\ map dp_view (loaded (load t2)) = [nd_view d1; nd_view d3].
Proof. vm_compute. repeat split; reflexivity. Qed.
