(** C09 - the data file stays loadable and unmixed after a crash at any write point.
    Statements only; proofs in Proofs/DataFileP.v.  Line-level model of a torn append: the first
    k lines of what the session would have written arrived, the next one possibly in part (a last
    line without line end); the following session's first line is glued to that part.  Which kind
    of line the glued text is (comment / unreadable record / garbage) is decided byte by byte on
    the real loader by harness/c09.py, for every byte prefix. *)
From Coq Require Import List ZArith NArith Bool Arith.
Import ListNotations.
From RV Require Import Lib.Str Model.DataFile Proofs.DataFileP.
From RV Require Import Gen.GenFactsPersist Model.Bytes Proofs.BytesP.

(** From bytes to lines.  The file is a sequence of LF-terminated lines whose own text holds neither LF
    nor CR (the column codec escapes them, C07; checked on every real file by harness/c09.py), read in
    text mode with universal newlines (Model/Bytes.v, compared with CPython's line iteration).  Then
    EVERY byte prefix reads as: the first j lines, complete, followed by at most one last line
    without a line end, which is a prefix of line j+1 (possibly all of it: the cut just before its
    line end).  This is what the line-level theorems below call `torn_now file app j g`: g = GNone iff
    that partial line is absent. *)
Theorem C09_byte_prefix_is_line_prefix :
  forall (A : Type) (render : A -> str), (forall a, nl_free (render a)) ->
  forall ls k, k <= length (text_of render ls) ->
  exists j p,
    j <= length ls /\
    firstn k (text_of render ls) = text_of render (firstn j ls) ++ p /\
    read_lines (firstn k (text_of render ls)) =
      map (fun a => (render a, true)) (firstn j ls) ++ (match p with [] => [] | _ => [(p, false)] end) /\
    (p = [] \/ exists a m, nth_error ls j = Some a /\ p = firstn m (render a) /\ p <> []).
Proof. intros A render H. exact (byte_prefix_reads_as_line_prefix render H). Qed.
Print Assumptions C09_byte_prefix_is_line_prefix.

(** Right after the crash, for every cut: the file loads, and exactly the data points whose lines
    arrived completely are there - each once, whole, for the right run (j of them, where the lines
    of the first j fit into the cut and those of j+1 do not). *)
Theorem C09_torn_file_loads :
  forall file dps k g,
    crashed (load file) = false -> Forall dp_ok dps ->
    let app := session_lines file dps in
    let t := torn_now file app k g in
    crashed (load t) = false /\
    exists j new,
      j <= length dps /\
      loaded (load t) = loaded (load file) ++ new /\ map dp_view new = map nd_view (firstn j dps) /\
      length (session_lines file (firstn j dps)) <= k /\
      (j < length dps -> k < length (session_lines file (firstn (S j) dps))).
Proof. exact torn_load. Qed.
Print Assumptions C09_torn_file_loads.

(** After a later session recorded behind the torn tail: the file still loads; what was loaded
    before is unchanged and the new data points are exactly those recorded - no data point mixes
    measurements of before and after the cut, nothing is lost or counted twice. *)
Theorem C09_resumed_file_unmixed :
  forall file dps k g dps2,
    crashed (load file) = false -> Forall dp_ok dps -> Forall dp_ok dps2 -> dps2 <> [] -> g <> GNone ->
    let app := session_lines file dps in
    let t1 := torn_now file app k g in
    let t2 := torn_then file app k g (session_lines t1 dps2) in
    crashed (load t2) = false /\
    exists new2, loaded (load t2) = loaded (load t1) ++ new2 /\ map dp_view new2 = map nd_view dps2.
Proof. exact torn_then_resumed. Qed.
Print Assumptions C09_resumed_file_unmixed.

(** A cut at a line boundary (nothing glued) is an ordinary loadable file for the next session. *)
Theorem C09_boundary_cut_then_session :
  forall file dps k dps2,
    crashed (load file) = false -> Forall dp_ok dps -> Forall dp_ok dps2 ->
    let t1 := torn_now file (session_lines file dps) k GNone in
    crashed (load (t1 ++ session_lines t1 dps2)) = false /\
    exists new2, loaded (load (t1 ++ session_lines t1 dps2)) = loaded (load t1) ++ new2
                 /\ map dp_view new2 = map nd_view dps2.
Proof.
  intros file dps k dps2 Hc Hok Hok2 t1.
  destruct (torn_load file dps k GNone Hc Hok) as [C1 _]. fold t1 in C1.
  exact (session_roundtrip t1 dps2 C1 Hok2).
Qed.
Print Assumptions C09_boundary_cut_then_session.

(** The last clause of the property: "after resuming, every invocation present carries all its data points".
    The progress a session finds for a run is the largest invocation number among the loaded data points
    (RunId._max_invocation): the next session continues with the following number. *)
Definition max_inv (run : nat) (l : list dpoint) : nat :=
  fold_left Nat.max (map (fun dp => match p_ms dp with m :: _ => m_inv m | [] => 0 end) (filter (fun dp => Nat.eqb (p_run dp) run) l)) 0.
Definition count_inv (run inv : nat) (l : list dpoint) : nat :=
  length (filter (fun dp => Nat.eqb (p_run dp) run && match p_ms dp with m :: _ => Nat.eqb (m_inv m) inv | [] => false end) l).

(** PARTIAL (what holds): if the cut falls on an invocation boundary - the complete data points are those of
    the first m invocations - exactly the data points of whole invocations are loaded. *)
Lemma firstn_concat_boundary {A} (invs : list (list A)) m :
  firstn (length (concat (firstn m invs))) (concat invs) = concat (firstn m invs).
Proof.
  revert m. induction invs as [|x invs IH]; intros m; [destruct m; reflexivity|].
  destruct m as [|m]; [reflexivity|]. simpl. rewrite app_length, firstn_app.
  replace (length x + length (concat (firstn m invs)) - length x) with (length (concat (firstn m invs))) by (rewrite Nat.add_comm; symmetry; apply Nat.add_sub).
  rewrite IH. rewrite firstn_all2 by (apply Nat.le_add_r). reflexivity.
Qed.

Theorem C09_invocation_complete_partial :
  forall file (invs : list (list newdp)) k g,
    crashed (load file) = false -> Forall dp_ok (concat invs) ->
    let t := torn_now file (session_lines file (concat invs)) k g in
    exists j new,
      loaded (load t) = loaded (load file) ++ new /\ map dp_view new = map nd_view (firstn j (concat invs)) /\
      (forall m, j = length (concat (firstn m invs)) -> map dp_view new = map nd_view (concat (firstn m invs))).
Proof.
  intros file invs k g Hc Hok t.
  destruct (torn_load file (concat invs) k g Hc Hok) as [_ [j [new [_ [L [V _]]]]]].
  exists j, new. split; [exact L|]. split; [exact V|].
  intros m E. rewrite V, E, firstn_concat_boundary. reflexivity.
Qed.
Print Assumptions C09_invocation_complete_partial.

(** REFUTED as stated (known finding F18c): an invocation of two data points, cut after the first one. The
    file loads, the invocation counts as done (the next session would start with invocation 2), and it
    keeps one of its two data points. *)
Theorem C09_invocation_complete_refuted :
  exists file dps k g,
    crashed (load file) = false /\ Forall dp_ok dps /\
    let t := torn_now file (session_lines file dps) k g in
    crashed (load t) = false /\
    count_inv 7 1 (loaded (load (file ++ session_lines file dps))) = 2 /\   (* what the harness produced *)
    count_inv 7 1 (loaded (load t)) = 1 /\                                  (* what the torn file holds *)
    max_inv 7 (loaded (load t)) = 1.                                         (* and it counts as done *)
Proof.
  exists [], [{| n_run := 7; n_bench := 3; n_inv := 1; n_ms := [(1, true, 5%Z)] |};
              {| n_run := 7; n_bench := 3; n_inv := 1; n_ms := [(2, true, 6%Z)] |}], 8, GNone.
  split; [reflexivity|]. split.
  - constructor; [exists [], 1, 5%Z; split; [reflexivity | constructor]|].
    constructor; [exists [], 2, 6%Z; split; [reflexivity | constructor] | constructor].
  - vm_compute. repeat split; reflexivity.
Qed.
Print Assumptions C09_invocation_complete_refuted.

(** The write unit is the data point: its lines are written and flushed together inside the persistence lock
    (read off _FilePersistence.persist_data_point on every run), so what is on disk while a benchmark process runs
    ends with a complete data point. *)
Theorem C09_flush_per_data_point : persist_locked = true.
Proof. reflexivity. Qed.
Print Assumptions C09_flush_per_data_point.

(** Non-vacuity: a data point of two lines, cut after its first line, then resumed. *)
Example C09_example :
  let d1 := {| n_run := 7; n_bench := 3; n_inv := 1; n_ms := [(1, true, 5%Z)] |} in
  let d2 := {| n_run := 7; n_bench := 3; n_inv := 2; n_ms := [(1, false, 6%Z); (1, true, 7%Z)] |} in
  let d3 := {| n_run := 7; n_bench := 3; n_inv := 2; n_ms := [(1, false, 8%Z); (1, true, 9%Z)] |} in
  let app := session_lines [] [d1; d2] in
  let t1 := torn_now [] app 9 GGarbage in
  let t2 := torn_then [] app 9 GGarbage (session_lines t1 [d3]) in
  length app = 10
  /\ map dp_view (loaded (load t1)) = [nd_view d1]
  /\ map dp_view (loaded (load t2)) = [nd_view d1; nd_view d3].
Proof. vm_compute. repeat split; reflexivity. Qed.
