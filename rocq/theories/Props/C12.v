(** C12 - Adapters are total: any output gives well-formed data points or a clean reject.
    The regular expressions used by the classifiers are REGENERATED from the adapters' source on
    every run (Gen/GenRegex.v); the theorems hold for every output text, every Unicode
    classification of non-ASCII characters, and both include-faulty settings. *)
From Coq Require Import List NArith Bool.
Import ListNotations.
From RV Require Import Lib.Str Lib.Regex Gen.GenRegex Model.Adapters Proofs.AdaptersP.
From RV Require Import Gen.GenRegex Gen.GenAdapters Proofs.AdapterErrP.

(** For any output whatsoever each built-in adapter either rejects (OutputNotParseable /
    ResultsIndicatedAsInvalid) or returns a NON-EMPTY list of data points in which every data point
    has exactly one 'total', placed last; no other exception ([PCrash]) is possible.
    (Iteration numbers are the positions 1..k in the returned list and every measurement carries
    the invocation number given to parse_data: both are by construction of the model's result and
    are compared with the implementation's fields by the correspondence check.) *)
Theorem C12_total_and_wellformed :
  forall U f data,
    good (rbl_parse U f data) /\ good (psl_parse U f data) /\ good (sav_parse U f data)
    /\ good (val_parse U f data) /\ good (jmh_parse U f data) /\ good (timf_parse U f data).
Proof. exact builtin_good. Qed.
Print Assumptions C12_total_and_wellformed.

Theorem C12_time_p_variant : forall U f data, good (timp_parse U f data).
Proof. exact timp_parse_good. Qed.
Print Assumptions C12_time_p_variant.

(** The same for ANY adapter written with the common loop whose line classifier only ever adds
    non-total measurements or closes with exactly one total at the end. *)
Theorem C12_generic_loop :
  forall is_err stop classify,
    (forall l ms, classify l = LAdd ms -> no_total ms = true) ->
    (forall l ms, classify l = LClose ms -> wf_close ms = true) ->
    (forall l, classify l <> LCrash) ->
    forall lines cur dps, no_total cur = true -> forallb wf_dp dps = true ->
      good (loop is_err stop classify lines cur dps).
Proof. exact loop_good. Qed.
Print Assumptions C12_generic_loop.

(** A failure marker on a line reached before any accepting exit rejects the invocation as
    invalid ... *)
Theorem C12_markers :
  forall is_err stop classify pre l post cur dps,
    Forall (passes is_err stop classify) pre -> stop l = false -> is_err l = true ->
    loop is_err stop classify (pre ++ l :: post) cur dps = PReject true.
Proof. exact loop_marker. Qed.
Print Assumptions C12_markers.

(** ... unless faulty results were requested. *)
Theorem C12_faulty_requested : forall U others l, common_err U true others l = false.
Proof. exact faulty_no_marker. Qed.
Print Assumptions C12_faulty_requested.

(** Non-vacuity (evaluated with the generated expressions): a ReBenchLog output with an extra
    criterion, and the same output followed by a failure marker. *)
Example C12_example :
  let out := [66;58;32;109;58;32;53;107;98;10;66;58;32;105;116;101;114;97;116;105;111;110;115;61;49;32;
              114;117;110;116;105;109;101;58;32;55;117;115;10]%N in
  (exists d, rbl_parse palette false out = POk [d] /\ length d = 2%nat)
  /\ rbl_parse palette false (out ++ [69;114;114;111;114]%N) = PReject true
  /\ (exists d, rbl_parse palette true (out ++ [69;114;114;111;114]%N) = POk [d]).
Proof. vm_compute. repeat split; eexists; split; reflexivity || reflexivity. Qed.

(** The common code of the adapters is the code's: GaugeAdapter.check_for_error is translated from adapter.py on every run, with
    the list each documented adapter stores in _other_error_definitions; the parse functions of the model are loops that call
    the translated check with the translated lists.  Read off every parse_data as well: it iterates over data.split("\n"), the
    error check is the first thing done with a line (JMH: after its end-of-run test), a hit raises ResultsIndicatedAsInvalid,
    and the method ends by rejecting when no data point was found. *)
Theorem C12_error_check_is_the_code :
  (forall U f others l, gen_check_for_error U f others l = common_err U f others l)
  /\ (forall U f data,
        rbl_parse U f data = loop (gen_check_for_error U f rbl_error_definitions) (fun _ => false) (rbl_classify U) (split_nl data) [] []
        /\ psl_parse U f data = loop (gen_check_for_error U f psl_error_definitions) (fun _ => false) (psl_classify U) (split_nl data) [] []
        /\ val_parse U f data = loop (gen_check_for_error U f val_error_definitions) (fun _ => false) (val_classify U) (split_nl data) [] []
        /\ jmh_parse U f data = loop (gen_check_for_error U f jmh_error_definitions) (re_search U jmh_re_complete) (jmh_classify U) (split_nl data) [] []
        /\ timf_parse U f data = loop (gen_check_for_error U f tim_error_definitions) (fun _ => false) (timf_classify U) (split_nl data) [] []
        /\ sav_parse U f data = loop (gen_check_for_error U f sav_error_definitions) (fun _ => false) (sav_classify U) (split_nl data) [] [])
  /\ adapter_loops_as_modelled = true.
Proof. split; [exact check_for_error_is_common_err|]. split; [exact parse_functions_call_the_translated_check | reflexivity]. Qed.
Print Assumptions C12_error_check_is_the_code.
