(** C14 - -c and -r discard exactly what they should, atomically.
    Statements only; proofs in Proofs/DataFileP.v.  Tied to rebench/persistence.py (load_data with
    discard, _process_lines with a filtered copy) by harness/c14.py (byte diffs of real files,
    crash injection at every file-system call of the rewrite). *)
From Coq Require Import List ZArith NArith Bool Arith.
Import ListNotations.
From RV Require Import Lib.Str Model.DataFile Proofs.DataFileP Proofs.RewriteLoadP.
From RV Require Import Gen.GenFactsRewrite.

(** Every line that is not a measurement (comments, metadata block lines, records, the header, a
    line that cannot be read, an incomplete last line) is kept, in order. *)
Theorem C14_other_lines_kept :
  forall sel f, filter is_meta (rewrite sel f) = filter is_meta f.
Proof. intros. apply rewrite_keeps_meta. Qed.
Print Assumptions C14_other_lines_kept.

(** The measurement lines that remain are exactly those of the runs that were not selected, in
    their order. *)
Theorem C14_exactly_selected_removed :
  forall sel f,
    data_keys [] (rewrite sel f) =
    filter (fun km => match fst km with Some rk => negb (sel rk) | None => true end) (data_keys [] f).
Proof. intros. apply rewrite_data. Qed.
Print Assumptions C14_exactly_selected_removed.

(** Selecting nothing changes nothing. *)
Theorem C14_nothing_selected :
  forall f, rewrite (fun _ => false) f = f.
Proof. intros. apply rewrite_nothing_selected. Qed.
Print Assumptions C14_nothing_selected.

(** What the next session finds ("the next execution regenerates precisely the removed runs"): for a file whose
    measurement lines come in whole data points and whose records the loader accepts (executable guards, evaluated
    on every real file by harness/c14.py) and which loads, the rewritten file loads too, with the same record
    tables, and the data points loaded from it are exactly those of the runs that were not selected, in their
    order - the selected runs are left with no recorded invocation, the others keep all of theirs. *)
Theorem C14_rewrite_then_load :
  forall sel f,
    wffb f = true -> no_skipsb ls_init f = true -> crashed (load f) = false ->
    crashed (load (rewrite sel f)) = false
    /\ loaded (load (rewrite sel f)) = filter (fun dp => negb (sel (p_run dp))) (loaded (load f))
    /\ benches (load (rewrite sel f)) = benches (load f) /\ runs (load (rewrite sel f)) = runs (load f).
Proof. exact rewrite_then_load. Qed.
Print Assumptions C14_rewrite_then_load.

(** The rewrite as file-system steps (create the copy next to the file, write, close, rename):
    after a crash behind any number of steps the data file is the old or the new content. *)
Theorem C14_atomic :
  forall old new k,
    data_f (crash_after old new k) = old \/ data_f (crash_after old new k) = new.
Proof. exact rewrite_atomic. Qed.
Print Assumptions C14_atomic.

Theorem C14_completes : forall old new, data_f (crash_after old new 4) = new.
Proof. exact rewrite_completes. Qed.
Print Assumptions C14_completes.

(** Read off load_data on every run: the filtered copy is created in the data file's own directory (so the
    temporary directory's file system is irrelevant), it is installed with os.replace after it was closed, and the
    data file itself is never unlinked or moved - the step list above is what the code does. *)
Theorem C14_replace_structure : replace_atomic = true.
Proof. reflexivity. Qed.
Print Assumptions C14_replace_structure.

(** Non-vacuity: two runs in a file, one selected. *)
Example C14_example :
  let d r v := {| n_run := r; n_bench := 3; n_inv := 1; n_ms := [(1, true, v)] |} in
  let f := session_lines [] [d 7 5%Z; d 8 6%Z; d 7 7%Z] in
  map (fun dp => p_run dp) (loaded (load (rewrite (Nat.eqb 7) f))) = [8]
  /\ length f - length (rewrite (Nat.eqb 7) f) = 2
  /\ wffb f = true /\ no_skipsb ls_init f = true /\ crashed (load f) = false.
Proof. vm_compute. repeat split; reflexivity. Qed.
