(** C20 - system tuning by denoise is always undone and used only as granted.
    Statements only; proofs in Proofs/DenoiseP.v.  The position of restore_noise (in the finally block of the
    try that contains minimize_noise and the session body) is regenerated from rebench/rebench.py on every
    run (Gen/GenFactsSession.restore_in_finally).  Tied to rebench/denoise_client.py, rebench/executor.py and
    rebench/denoise.py by harness/c20.py (a fake sudo first on PATH, never the real one). *)
From Coq Require Import List ZArith Bool Arith Reals.
Import ListNotations.
From RV Require Import Lib.Str Gen.GenFactsSession Gen.GenFactsDenoise Model.Denoise Proofs.DenoiseP.

(** For every way the session body can end (normal return with either result, user error, interrupt, any
    other exception), every capability report that is not "everything failed", every list of process
    starts: the events are the start-up step, the starts, and exactly one restore step at the very end,
    with the flags of what was not granted. *)
Theorem C20_restore_once :
  forall r prof starts e,
    all_failed r = false ->
    (exists pre a b, session_events true r prof starts e = DMinimize prof :: pre ++ [DRestore a b]
                     /\ pre = map DStart starts /\ a = negb (use_shield r) /\ b = negb (use_nice r))
    /\ length (filter is_restore (session_events true r prof starts e)) = 1%nat.
Proof. intros. split; [apply restore_once | apply restore_exactly_one]; assumption. Qed.
Print Assumptions C20_restore_once.

(** If the start-up step changed anything, the report is not "everything failed" (so the restore step runs). *)
Theorem C20_changed_is_restored : forall r, changed_something r = true -> all_failed r = false.
Proof. exact changed_not_all_failed. Qed.
Print Assumptions C20_changed_is_restored.

(** With -D denoise is never invoked. *)
Theorem C20_no_denoise : forall r prof starts e, session_events false r prof starts e = map DStart starts.
Proof. exact no_denoise_no_events. Qed.
Print Assumptions C20_no_denoise.

(** The wrapper of a benchmark command uses exactly what was granted. *)
Theorem C20_wrapper_none :
  forall nice shield prof cset keys n, wrapper nice shield prof cset keys n = [] <-> nice = false /\ shield = false.
Proof. exact wrapper_none. Qed.
Print Assumptions C20_wrapper_none.

Theorem C20_wrapper_flags :
  forall nice shield prof cset keys n,
    nice || shield = true ->
    let w := wrapper nice shield prof cset keys n in
    (In TWithoutNice w <-> nice = false) /\ (In TWithoutShielding w <-> shield = false)
    /\ (In TForProfiling w <-> prof = true)
    /\ (forall ks, In (TPreserveEnv ks) w <-> ks = keys /\ keys <> [])
    /\ hd_error w = Some TSudo /\ In TDenoise w /\ In (TNumCores n) w /\ last w TSudo = TExec.
Proof.
  intros nice shield prof cset keys n H w. unfold w.
  split; [apply wrapper_without_nice; exact H|].
  split; [apply wrapper_without_shielding; exact H|].
  split; [apply wrapper_for_profiling; exact H|].
  split; [intro ks; apply wrapper_preserve_env; exact H|].
  apply wrapper_frame. exact H.
Qed.
Print Assumptions C20_wrapper_flags.

(** The shielded core range lower..upper = floor(ln n)..n-1 lies within 0..n-1, for every n >= 1 (over R). *)
Theorem C20_shield_range :
  forall n : Z, (1 <= n)%Z -> (0 <= Int_part (ln (IZR n)) <= n - 1)%Z.
Proof. exact shield_range_real. Qed.
Print Assumptions C20_shield_range.

(** The executable lower bound used in the correspondence is floor(ln n) below 8104 cores. *)
Theorem C20_floor_ln_correct :
  forall n : Z, (1 <= n < 8104)%Z -> Int_part (ln (IZR n)) = floor_ln n.
Proof. exact floor_ln_correct. Qed.
Print Assumptions C20_floor_ln_correct.

(** What the start-up step can report and how the client reads it (both read off the source on every run): the
    shielding entry of the report is False or the core range that was asked for - never another value that a
    truthiness test would take for "granted" -, the nice entry is a boolean, the report is built from these two, and
    the client takes exactly these entries.  So "reported as available" in the wrapper theorem is what cset and nice
    actually granted. *)
Theorem C20_startup_report_is_what_was_granted :
  shielding_reports_false_or_range = true /\ nice_reports_boolean = true
  /\ report_built_from_them = true /\ client_reads_report = true.
Proof. repeat split; reflexivity. Qed.
Print Assumptions C20_startup_report_is_what_was_granted.

(** Non-vacuity. *)
Example C20_example :
  session_events true (RJson JFalse JTrue [JTrue; JFailed]) false [1; 2]%nat BInterrupt
    = [DMinimize false; DStart 1; DStart 2; DRestore false true]
  /\ session_events true (RJson JAbsent JAbsent [JFailed; JFailed]) false [1]%nat (BReturn true) = [DMinimize false; DStart 1]
  /\ wrapper false true true true [[75]%N] 8 = [TSudo; TPreserveEnv [[75]%N]; TDenoise; TWithoutNice; TCsetPath; TForProfiling; TNumCores 8; TExec]
  /\ shield_range 16 = (2, 15)%Z.
Proof. vm_compute. repeat split; reflexivity. Qed.
