(** C07 - run identity and measurements survive the data-file round trip.
    Statements only; proofs in Proofs/DataFileP.v.  Tied to rebench/persistence.py and the
    as_dict / from_dict / __eq__ methods of the identity classes by harness/c07.py (histories of
    real sessions; identity as a whole is decided by correspondence, see the level note). *)
From Coq Require Import List ZArith NArith Bool Arith.
Import ListNotations.
From RV Require Import Lib.Str Model.DataFile Proofs.DataFileP Model.Identity Proofs.IdentityP Gen.GenIdentity.

(** Histories of sessions: the file is loadable after every session, the follow-up session loads
    exactly what the earlier ones recorded (invocation, iteration, criterion kind, value, run). *)
Fixpoint history (file : list line) (sessions : list (list newdp)) : list line :=
  match sessions with
  | [] => file
  | dps :: r => history (file ++ session_lines file dps) r
  end.

Theorem C07_history_roundtrip :
  forall sessions file,
    crashed (load file) = false -> Forall (Forall dp_ok) sessions ->
    crashed (load (history file sessions)) = false /\
    exists new, loaded (load (history file sessions)) = loaded (load file) ++ new
                /\ map dp_view new = map nd_view (concat sessions).
Proof.
  induction sessions as [|dps r IH]; intros file Hc Hok; simpl.
  - split; [exact Hc|]. exists []. rewrite app_nil_r. split; reflexivity.
  - inversion Hok; subst.
    destruct (session_roundtrip file dps Hc H1) as [C1 [n1 [L1 V1]]].
    destruct (IH (file ++ session_lines file dps) C1 H2) as [C2 [n2 [L2 V2]]].
    split; [exact C2|]. exists (n1 ++ n2). split.
    + rewrite L2, L1, app_assoc. reflexivity.
    + rewrite !map_app, V1, V2. reflexivity.
Qed.
Print Assumptions C07_history_roundtrip.

(** Record ids: the tables of the loader only grow, by the records the session wrote; the id of a
    record is its position (any other id makes the loader fail, and it does not fail). *)
Theorem C07_ids_consecutive :
  forall file dps,
    crashed (load file) = false -> Forall dp_ok dps ->
    exists extra_b extra_r,
      benches (load (file ++ session_lines file dps)) = benches (load file) ++ extra_b /\
      runs (load (file ++ session_lines file dps)) = runs (load file) ++ extra_r.
Proof. exact session_ids. Qed.
Print Assumptions C07_ids_consecutive.

(** The columns of a measurement line survive whatever characters they contain. *)
Theorem C07_line_roundtrip :
  forall cols, cols <> [] ->
    read_columns (write_columns cols) = cols
    /\ ~ In c_lf (write_columns cols) /\ ~ In c_cr (write_columns cols).
Proof. exact columns_roundtrip. Qed.
Print Assumptions C07_line_roundtrip.

Theorem C07_unescape_escape : forall s, unescape (escape s) = s.
Proof. exact unescape_escape. Qed.
Print Assumptions C07_unescape_escape.

(** Identity of a run.  For each of RunId, Benchmark, BenchmarkSuite, Executor, ExpRunDetails and ExpVariables a
    table is regenerated from the source on every run (Gen/GenIdentity.v): for every attribute that __eq__
    compares, the key as_dict writes it under (always, or only when it is not None) and the key from_dict reads
    the constructor argument stored in that attribute from.  The tables pass the check (same key on both sides,
    a conditional write only together with an optional read, distinct keys), hence every compared attribute
    survives as_dict followed by from_dict - whatever value it holds, falsy ones included. *)
Theorem C07_identity_tables_ok : forallb tbl_ok identity_tables = true.
Proof. vm_compute. reflexivity. Qed.
Print Assumptions C07_identity_tables_ok.

Theorem C07_identity_roundtrip :
  forall (V : Type) t (o : obj V) e,
    In t identity_tables -> In e t ->
    from_dict V t (as_dict V t o) (f_name e) = o (f_name e).
Proof.
  intros V t o e Ht He. apply identity_roundtrip; [|exact He].
  pose proof C07_identity_tables_ok as H. rewrite forallb_forall in H. apply H. exact Ht.
Qed.
Print Assumptions C07_identity_roundtrip.

(** every class has at least one compared attribute in its table (the statement above is not vacuous) *)
(** __hash__ agrees with __eq__ for the six identity classes (both read off the source on every run): every
    attribute a hash is computed from is compared by __eq__, and a map-valued attribute (env) is hashed through
    its sorted items.  Hence, under Python's contract for the built-in values held by the attributes (equal values
    hash equally - a hypothesis of the theorem, nothing is assumed about items in insertion order), objects that
    __eq__ considers equal have equal hashes: a loaded run is found in the set of configured runs, and a run
    requested from two places is one run (C01). *)
Theorem C07_hash_tables_ok : forallb hash_ok identity_hashes = true.
Proof. vm_compute. reflexivity. Qed.
Print Assumptions C07_hash_tables_ok.

Theorem C07_equal_objects_hash_equally :
  forall (V : Type) (veq : V -> V -> Prop) (h_plain h_tuple h_sorted h_items : V -> nat),
    (forall a b, veq a b -> h_plain a = h_plain b) ->
    (forall a b, veq a b -> h_tuple a = h_tuple b) ->
    (forall a b, veq a b -> h_sorted a = h_sorted b) ->
    forall c o1 o2, In c identity_hashes ->
      (forall a, In a (fst c) -> veq (o1 a) (o2 a)) ->
      map (proj V h_plain h_tuple h_sorted h_items o1) (snd c) = map (proj V h_plain h_tuple h_sorted h_items o2) (snd c).
Proof.
  intros V veq hp ht hs hi Hp Ht Hs c o1 o2 Hc Heq.
  apply (equal_objects_hash_equally V veq hp ht hs hi Hp Ht Hs c o1 o2); [|exact Heq].
  pose proof C07_hash_tables_ok as H. rewrite forallb_forall in H. apply H. exact Hc.
Qed.
Print Assumptions C07_equal_objects_hash_equally.

Example C07_identity_tables_nonempty : forallb (fun t => negb (Nat.eqb (length t) 0)) identity_tables = true /\ length identity_tables = 6.
Proof. vm_compute. split; reflexivity. Qed.

(** Non-vacuity: three sessions, two runs of one benchmark, ids 0 and 1. *)
Example C07_example :
  let d r i v := {| n_run := r; n_bench := 3; n_inv := i; n_ms := [(1, true, v)] |} in
  let h := history [] [[d 7 1 5%Z]; [d 8 1 6%Z; d 7 2 7%Z]; [d 8 2 9%Z]] in
  crashed (load h) = false /\ runs (load h) = [7; 8] /\ benches (load h) = [3]
  /\ map (fun dp => p_run dp) (loaded (load h)) = [7; 8; 7; 8].
Proof. vm_compute. repeat split; reflexivity. Qed.
