(** C05 - Built-in gauge adapters recover exactly the measurements a harness printed.
    Loop level (proved, for every adapter written with the common loop and ANY line classifier):
    a sequence of iterations, each rendered as criterion lines followed by its total line, with
    arbitrary noise lines in between and inside, is returned exactly, in order, one data point
    per iteration (numbered by position 1..k, stamped with the invocation number by construction).
    Line level (which line shapes the GENERATED expressions classify how): proved for every documented format -
    SavinaLog (C05_line_savina, C05_savina_exact), ReBenchLog total lines (C05_line_rebenchlog, C05_rebenchlog_exact:
    the optional greedy prefix "(?:.*: )?" is backtracked out of), ValidationLog (C05_line_validationlog,
    C05_validationlog_exact), TimeAdapter with GNU time's format (C05_line_time_rss, C05_line_time_wall), with
    POSIX time -p and the shell's time (C05_line_time_p - including that the first expression does NOT match -,
    C05_line_time_sh, C05_time_p_exact), PlainSecondsLog (C05_line_plainseconds) and JMH (C05_line_jmh): the expression
    regenerated from the source matches a rendered line with exactly the groups the adapter reads, for names, blanks
    and numerals of any length and for every Unicode classification.  Not covered by a line theorem: ReBenchLog's
    extra-criterion lines and its optional second word, numerals with a fraction or an exponent in ReBenchLog lines,
    float()'s other numeral shapes; those are decided by the differential correspondence (the engine against CPython's
    `re`, render-then-parse on the real adapters). *)
From Coq Require Import List NArith Bool.
Import ListNotations.
From RV Require Import Lib.Str Lib.Regex Gen.GenRegex Model.Adapters Proofs.AdaptersP Proofs.RegexP Proofs.AdapterLinesP Proofs.RebenchLineP Proofs.ValidationLineP Proofs.TimeLineP Proofs.PlainLineP.

Theorem C05_fold_exact :
  forall is_err stop classify (items : list (item)),
    Forall (item_ok is_err stop classify) items -> flat_map item_dp items <> [] ->
    loop is_err stop classify (concat (map item_lines items)) [] [] = POk (flat_map item_dp items).
Proof. exact loop_exact. Qed.
Print Assumptions C05_fold_exact.

(** lines that are not in the format contribute nothing, wherever they are *)
Theorem C05_noise_contributes_nothing :
  forall is_err stop classify items dps,
    Forall (item_ok is_err stop classify) items ->
    loop is_err stop classify (concat (map item_lines items)) [] dps
    = finish (rev (flat_map item_dp items) ++ dps).
Proof. exact loop_items. Qed.
Print Assumptions C05_noise_contributes_nothing.

(** Line level, SavinaLog: "<name><blanks>Iteration-<n>:<blanks><int>.<frac> ms<anything>" is classified as a
    complete data point whose value is the printed numeral - for every Unicode classification. *)
Theorem C05_line_savina :
  forall U name sp1 ds sp2 ip fp tail,
    name_ok U name -> blanks sp1 -> digits ds -> blanks sp2 -> digits ip -> digits fp ->
    sav_classify U (savina_line name sp1 ds sp2 ip fp tail)
    = LClose [mk_meas s_total s_ms (VFloat (ip ++ [46%N] ++ fp))].
Proof. exact savina_line_classified. Qed.
Print Assumptions C05_line_savina.

(** ... and any sequence of such iterations with noise lines anywhere is parsed into exactly one data point
    per iteration, in order, each with its printed numeral (line level and loop level together). *)
Theorem C05_savina_exact :
  forall U faulty (xs : list sav_item),
    Forall (sav_item_ok U faulty) xs -> flat_map sav_item_dp xs <> [] ->
    loop (common_err U faulty []) (fun _ => false) (sav_classify U) (map sav_item_line xs) [] []
    = POk (flat_map sav_item_dp xs).
Proof. exact savina_iterations_exact. Qed.
Print Assumptions C05_savina_exact.

(** Line level, TimeAdapter with GNU time's format. *)
Theorem C05_line_time_rss :
  forall U ds tail, digits ds -> stops U CDigit tail ->
    timf_classify U (s_maxrss ++ ds ++ tail) = LAdd [mk_meas s_MaxRSS s_kb (VFloat ds)].
Proof. exact time_rss_line. Qed.
Print Assumptions C05_line_time_rss.

Theorem C05_line_time_wall :
  forall U ip fp tail, digits ip -> digits fp -> stops U CDigit tail ->
    timf_classify U (s_wall ++ (ip ++ [46%N] ++ fp) ++ tail)
    = LClose [mk_meas s_total s_ms (VFloatMul1000 (ip ++ [46%N] ++ fp))].
Proof. exact time_wall_line. Qed.
Print Assumptions C05_line_time_wall.

(** Line level, TimeAdapter without GNU time: POSIX "time -p" ("real 1.23") - where the first expression is shown NOT
    to match, whatever way its repeats are backtracked - and the shell's "real 0m1.234s". *)
Theorem C05_line_time_p :
  forall U name sp ip fp tail,
    letters name -> blanks sp -> digits ip -> digits fp -> stops U CDigit tail ->
    timp_line U (name ++ sp ++ (ip ++ [46%N] ++ fp) ++ tail)
    = Some (mk_meas (crit_of name) s_ms (VMinSec sp (ip ++ [46%N] ++ fp))).
Proof. exact time_p_line. Qed.
Print Assumptions C05_line_time_p.

Theorem C05_line_time_sh :
  forall U name sp mn ip fp tail,
    letters name -> blanks sp -> digits mn -> digits ip -> digits fp ->
    timp_line U (name ++ sp ++ mn ++ [109%N] ++ (ip ++ [46%N] ++ fp) ++ [115%N] ++ tail)
    = Some (mk_meas (crit_of name) s_ms (VMinSec mn (ip ++ [46%N] ++ fp))).
Proof. exact time_sh_line. Qed.
Print Assumptions C05_line_time_sh.

(** ... and the whole output: the measures that are not the total in order, closed by the LAST total line; no total
    line, no data point. *)
Theorem C05_time_p_exact :
  forall U faulty xs cur t0,
    Forall (t_item_ok U faulty) xs ->
    timp_loop U faulty (map t_line xs) cur t0
    = match t_total xs t0 with Some t => POk [cur ++ t_others xs ++ [t]] | None => PReject false end.
Proof. exact timp_loop_exact. Qed.
Print Assumptions C05_time_p_exact.

Example C05_time_p_example :        (* "real 1.50" / "user 0m0.25s" *)
  timp_line palette ([114;101;97;108] ++ [32] ++ ([49] ++ [46] ++ [53;48]) ++ [])%N
    = Some (mk_meas s_total s_ms (VMinSec [32]%N [49;46;53;48]%N))
  /\ timp_line palette ([117;115;101;114] ++ [9] ++ [48] ++ [109] ++ ([48] ++ [46] ++ [50;53]) ++ [115] ++ [])%N
    = Some (mk_meas [117;115;101;114]%N s_ms (VMinSec [48]%N [48;46;50;53]%N)).
Proof. vm_compute. split; reflexivity. Qed.

(** Line level, PlainSecondsLogAdapter: a line "<int>.<frac>" is a float for the model of float(), so it is the total
    (token = the line, in seconds). *)
Theorem C05_line_plainseconds :
  forall U ip fp, digits ip -> digits fp ->
    psl_classify U (ip ++ [46%N] ++ fp) = LClose [mk_meas s_total s_ms (VFloatMul1000 (ip ++ [46%N] ++ fp))].
Proof. exact plain_line. Qed.
Print Assumptions C05_line_plainseconds.

(** Line level, JMH: a measured iteration "Iteration<blanks><n>:<blanks><int>.<frac><blanks><unit>". *)
Theorem C05_line_jmh :
  forall U sp1 ds sp2 ip fp sp3 unit,
    blanks sp1 -> digits ds -> blanks sp2 -> digits ip -> digits fp -> blanks sp3 -> no_newline unit ->
    stops U CSpace unit ->
    jmh_classify U (jmh_line sp1 ds sp2 ip fp sp3 unit)
    = LClose [mk_meas s_total (strip U unit) (VFloat (ip ++ [46%N] ++ fp))].
Proof. exact jmh_line_classified. Qed.
Print Assumptions C05_line_jmh.

(** Line level, RebenchLogAdapter: "<name>: iterations=<n> runtime: <int>ms" (or "us").  The expression starts with
    the optional greedy prefix "(?:.*: )?", which matches twice inside such a line; the theorem shows that every way of
    taking it leaves a rest the remainder rejects, so the best match is the one the adapter expects - for names without
    white space, numerals of any length and every Unicode classification. *)
Theorem C05_line_rebenchlog :
  forall U name ds ip u,
    rbl_name_ok U name -> digits ds -> digits ip -> unit_ok u ->
    rbl_classify U (rbl_line name ds ip u)
    = LClose [mk_meas s_total s_ms (if (u =? 117)%N then VFloatDiv1000 ip else VFloat ip)].
Proof. exact rbl_line_classified. Qed.
Print Assumptions C05_line_rebenchlog.

(** ... and any sequence of such lines with noise lines anywhere is parsed into exactly one data point per line. *)
Theorem C05_rebenchlog_exact :
  forall U faulty (xs : list rbl_item),
    Forall (rbl_item_ok U faulty) xs -> flat_map rbl_item_dp xs <> [] ->
    loop (common_err U faulty rbl_errs) (fun _ => false) (rbl_classify U) (map rbl_item_line xs) [] []
    = POk (flat_map rbl_item_dp xs).
Proof. exact rbl_iterations_exact. Qed.
Print Assumptions C05_rebenchlog_exact.

(** Line level, ValidationLogAdapter: "<name>: iterations=<n> runtime: <int>ms success: true" (or us / false); the
    optional prefix matches three times inside such a line and is backtracked out of every time. *)
Theorem C05_line_validationlog :
  forall U name ds ip u b,
    name_ok U name -> digits ds -> digits ip -> unit_ok u -> bool_ok b ->
    val_classify U (val_line name ds ip u b)
    = LClose [mk_meas s_Success s_bool (VBool (str_eqb b s_true));
              mk_meas s_total s_ms (if (u =? 117)%N then VFloatDiv1000 ip else VFloat ip)].
Proof. exact val_line_classified. Qed.
Print Assumptions C05_line_validationlog.

Theorem C05_validationlog_exact :
  forall U faulty (xs : list val_item),
    Forall (val_item_ok U faulty) xs -> flat_map val_item_dp xs <> [] ->
    loop (common_err U faulty val_errs) (fun _ => false) (val_classify U) (map val_item_line xs) [] []
    = POk (flat_map val_item_dp xs).
Proof. exact val_iterations_exact. Qed.
Print Assumptions C05_validationlog_exact.

Example C05_validationlog_example :
  let i := {| vi_name := [70;105;98;46;120]%N; vi_ds := [49;48]%N; vi_ip := [49;50;51;52]%N; vi_u := 109%N; vi_b := s_false |} in
  common_err palette false val_errs (val_render i) = false
  /\ val_classify palette (val_render i) = LClose [mk_meas s_Success s_bool (VBool false); mk_meas s_total s_ms (VFloat [49;50;51;52]%N)].
Proof. vm_compute. split; reflexivity. Qed.

(** Non-vacuity: "Fib.x: iterations=10 runtime: 1234us" meets the hypotheses (no failure marker either). *)
Example C05_rebenchlog_example :
  let i := {| ri_name := [70;105;98;46;120]%N; ri_ds := [49;48]%N; ri_ip := [49;50;51;52]%N; ri_u := 117%N |} in
  common_err palette false rbl_errs (rbl_render i) = false
  /\ rbl_classify palette (rbl_render i) = LClose [mk_meas s_total s_ms (VFloatDiv1000 [49;50;51;52]%N)].
Proof. vm_compute. split; reflexivity. Qed.

(** Non-vacuity of the line theorems: "Fib.x  Iteration-12:\t3.250 ms" and "max rss (kb): 2048". *)
Example C05_line_example :
  sav_classify palette (savina_line [70;105;98;46;120] [32;32] [49;50] [9] [51] [50;53;48] [])%N
    = LClose [mk_meas s_total s_ms (VFloat [51;46;50;53;48]%N)]
  /\ timf_classify palette (s_maxrss ++ [50;48;52;56] ++ [])%N = LAdd [mk_meas s_MaxRSS s_kb (VFloat [50;48;52;56]%N)].
Proof. vm_compute. split; reflexivity. Qed.

(** Non-vacuity with the generated ReBenchLog expressions: two iterations, the first with an extra
    criterion, noise before, between and after, CR/LF line ends. *)
Example C05_example :
  let nl := [13;10]%N in
  let noise := [115;116;97;114;116;105;110;103]%N in
  let crit := [66;58;32;109;101;109;58;32;53;107;98]%N in                       (* B: mem: 5kb *)
  let tot1 := [66;58;32;105;116;101;114;97;116;105;111;110;115;61;49;32;114;117;110;116;105;109;101;58;32;55;117;115]%N in
  let tot2 := [66;58;32;105;116;101;114;97;116;105;111;110;115;61;49;32;114;117;110;116;105;109;101;58;32;57;109;115]%N in
  match rbl_parse palette false (noise ++ nl ++ crit ++ nl ++ noise ++ nl ++ tot1 ++ nl ++ tot2 ++ nl ++ noise) with
  | POk [d1; d2] => length d1 = 2%nat /\ length d2 = 1%nat
  | _ => False
  end.
Proof. vm_compute. split; reflexivity. Qed.
