(** C05 - Built-in gauge adapters recover exactly the measurements a harness printed.
    Loop level (proved, for every adapter written with the common loop and ANY line classifier):
    a sequence of iterations, each rendered as criterion lines followed by its total line, with
    arbitrary noise lines in between and inside, is returned exactly, in order, one data point
    per iteration (numbered by position 1..k, stamped with the invocation number by construction).
    Line level (which line shapes the GENERATED expressions classify how): decided by the
    differential correspondence (the engine against CPython's `re`, render-then-parse on the real
    adapters for all documented numeral shapes, units, prefixes, CR/LF); the per-format line
    theorems are not proved in this round - see DESIGN.md, C05 is claimed PARTIAL at line level. *)
From Coq Require Import List NArith Bool.
Import ListNotations.
From RV Require Import Lib.Str Lib.Regex Gen.GenRegex Model.Adapters Proofs.AdaptersP.

Theorem C05_fold_exact :
  forall is_err stop classify (items : list (item)),
    Forall (item_ok is_err stop classify) items -> flat_map item_dp items <> [] ->
    loop is_err stop classify (concat (map item_lines items)) [] [] = POk (flat_map item_dp items).
Proof. exact loop_exact. Qed.
Print Assumptions C05_fold_exact.

(** lines that are not in the format contribute nothing, wherever they are *)
Theorem C05_noise_contributes_nothing :
  forall is_err stop classify items dps,
    Forall (item_ok is_err stop classify) items ->
    loop is_err stop classify (concat (map item_lines items)) [] dps
    = finish (rev (flat_map item_dp items) ++ dps).
Proof. exact loop_items. Qed.
Print Assumptions C05_noise_contributes_nothing.

(** Non-vacuity with the generated ReBenchLog expressions: two iterations, the first with an extra
    criterion, noise before, between and after, CR/LF line ends. *)
Example C05_example :
  let nl := [13;10]%N in
  let noise := [115;116;97;114;116;105;110;103]%N in
  let crit := [66;58;32;109;101;109;58;32;53;107;98]%N in                       (* B: mem: 5kb *)
  let tot1 := [66;58;32;105;116;101;114;97;116;105;111;110;115;61;49;32;114;117;110;116;105;109;101;58;32;55;117;115]%N in
  let tot2 := [66;58;32;105;116;101;114;97;116;105;111;110;115;61;49;32;114;117;110;116;105;109;101;58;32;57;109;115]%N in
  match rbl_parse palette false (noise ++ nl ++ crit ++ nl ++ noise ++ nl ++ tot1 ++ nl ++ tot2 ++ nl ++ noise) with
  | POk [d1; d2] => length d1 = 2%nat /\ length d2 = 1%nat
  | _ => False
  end.
Proof. vm_compute. split; reflexivity. Qed.
