(** C03 - the executed command is the configured template with every placeholder replaced once.
    Statements only; proofs are in Proofs/CmdlineP.v.  The model (Model/Cmdline.v) is tied to
    rebench/model/run_id.py by the correspondence check harness/c03.py. *)
From Coq Require Import List ZArith NArith Bool.
Import ListNotations.
From RV Require Import Lib.Str Model.Cmdline Proofs.CmdlineP Gen.GenFactsBuild Gen.GenFactsLaunch Gen.GenPar.
Local Open Scope N_scope.

(** Python's `template % mapping`, as modelled, reads a rendered template back as the pieces it
    was rendered from: literal characters, %%, %(key)c - for keys without % ( ) and every
    conversion character. *)
Theorem C03_tokenizer_inverts_render :
  forall its, Forall wf_item its -> tokenize (render its) = its.
Proof. exact tokenize_render. Qed.
Print Assumptions C03_tokenizer_inverts_render.

(** One formatting pass with the final values is the declarative substitution: every literal
    character stays, %% gives %, %(k)s gives the run's value of k, %(invocation)s the number. *)
Theorem C03_one_pass_is_substitution :
  forall m n its, Forall (piece_ok m) its -> one_pass (render its) m n = FOk (spec_text m n its).
Proof. exact one_pass_spec. Qed.
Print Assumptions C03_one_pass_is_substitution.

(** What run_id.py does - a first pass that keeps "%(invocation)s" and escapes every literal %
    (in the template and in the values), strip(), then a second pass inserting the number - gives
    the stripped one-pass result, for every template, all values (whatever characters they
    contain, % included) and every invocation number. *)
Theorem C03_two_passes_equal_one_pass :
  forall m n its, Forall (piece_ok m) its ->
    two_pass (render its) m n = FOk (strip (spec_text m n its)).
Proof. exact two_pass_spec. Qed.
Print Assumptions C03_two_passes_equal_one_pass.

(** The command of the next invocation of a run: executor path/executable, args, suite command,
    extra_args (assemble), substituted once with the number completed + 1, then ~ expansion. *)
Theorem C03_next_invocation :
  forall home c m k its,
    assemble c = render its -> Forall (piece_ok m) its ->
    next_cmdline home c m k = FOk (expand_user home true (strip (spec_text m (k + 1) its))).
Proof. exact next_cmdline_spec. Qed.
Print Assumptions C03_next_invocation.

(** Words without a leading ~ (and without ~ inside :-lists) are left exactly as they are. *)
Theorem C03_no_tilde_unchanged :
  forall home esc s,
    Forall (fun w => expand_word home w = w) (split_ws s) -> expand_user home esc s = s.
Proof. exact expand_user_no_tilde. Qed.
Print Assumptions C03_no_tilde_unchanged.

(** The plan (-p): Executor.execute_run, read off executor.py on every run as the list of its steps.  The plan branch comes
    after the steps that only look up the adapter and assemble the command line, before the start of a run is reported,
    before any build and before any process; it consists of print calls only - the directory when the run has one, then the
    command line (the one C03_next_invocation describes) - and returns.  The plan is printed by one thread: the parallel
    scheduler is never chosen in plan mode (plan_is_sequential, read off _create_scheduler; before the repair 06fd2ca its
    worker threads interleaved the lines of different runs). *)
Theorem C03_plan_before_any_effect :
  plan_branch = [PCdLocationIfAny; PCmdline] /\ plan_is_sequential = true
  /\ exists pre post,
       execute_run_steps = pre ++ XPlanOrGoOn :: post
       /\ (forall s, In s pre -> s = XAdapter \/ s = XStopIfNoAdapter \/ s = XCmdline)
       /\ In XReportStart post /\ (exists g, In (XBuildIf g) post) /\ (exists g, In (XProcessIf g) post)
       /\ ~ In XPlanOrGoOn post.
Proof.
  split; [reflexivity|]. split; [reflexivity|].
  exists [XAdapter; XStopIfNoAdapter; XCmdline].
  eexists. split; [reflexivity|]. split.
  - intros s [<-|[<-|[<-|[]]]]; auto.
  - split; [simpl; tauto|]. split; [eexists; simpl; eauto 12|]. split; [eexists; simpl; eauto 12|].
    simpl. intros H. repeat (destruct H as [H|H]; [discriminate|]). exact H.
Qed.
Print Assumptions C03_plan_before_any_effect.

(** Environment and working directory: read off the source on every run - the process is started with the command line, with
    env = RunId.env and cwd = the run's location after expanduser (when there is one), shell=True; subprocess_with_timeout.run
    hands exactly these to Popen (never os.environ, nothing merged); RunId.env is the configured map with expand_user applied to
    the values.  Hence the child's variables are exactly the configured names (in order, none added, none dropped), and a
    value without a leading ~ (and without ~ in a :-list) is passed as written. *)
Theorem C03_env_and_cwd_reach_the_process :
  launch_passes_cmdline_env_cwd = true /\ popen_gets_what_run_got = true /\ run_env_is_expanded_configured_env = true
  /\ (forall home e, map fst (run_env home e) = map fst e)
  /\ (forall home e k v, In (k, v) e -> Forall (fun w => expand_word home w = w) (split_ws v) -> In (k, v) (run_env home e)).
Proof.
  repeat split; try reflexivity.
  - intros home e. unfold run_env. rewrite map_map. reflexivity.
  - intros home e k v Hin Hw. unfold run_env. apply in_map_iff. exists (k, v). split; [|exact Hin].
    simpl. rewrite (expand_user_no_tilde home false v Hw). reflexivity.
Qed.
Print Assumptions C03_env_and_cwd_reach_the_process.

(** Non-vacuity: "exe 100%% %(variable)s %(invocation)s" with the value "50%". *)
Example C03_example :
  let lit s := map ILit s in
  let its := lit [101;120;101;32;49;48;48] ++ [IPct; ILit 32; IPh [118] (Some 115); ILit 32;
                                                IPh k_invocation (Some 115)] in
  let m := [([118], PS [53;48;37])] in
  Forall (piece_ok m) its
  /\ two_pass (render its) m 3 = FOk [101;120;101;32;49;48;48;37;32;53;48;37;32;51].
Proof.
  split; [|vm_compute; reflexivity].
  simpl.
  repeat match goal with
  | |- Forall _ [] => constructor
  | |- Forall _ (ILit _ :: _) => constructor; [simpl; unfold c_pct; discriminate|]
  | |- Forall _ (IPct :: _) => constructor; [exact I|]
  | |- Forall _ (IPh _ _ :: _) =>
      constructor; [split; [unfold key_ok, c_pct, c_lpar, c_rpar; simpl; intuition discriminate|]|]
  end.
  - right. split; [discriminate|]. left. split; [reflexivity|]. eexists; reflexivity.
  - left. split; reflexivity.
Qed.
