(** C16 - timed-out or interrupted invocations are killed with their whole process tree.
    Statements only.  The kill decision (Gen/GenFactsKill.kill_cond and the raise structure) is regenerated
    from rebench/subprocess_with_timeout.py on every run; the collection of the tree mirrors
    rebench/subprocess_kill.py; the classification of a timed-out invocation is Model/Retry.classify.
    Tied to the real code by harness/c16.py (real process trees, real limits and signals). *)
From Coq Require Import List ZArith Bool Arith Lia.
Import ListNotations.
From RV Require Import Gen.GenFactsKill Gen.GenTermination Model.Retry Model.Kill Proofs.KillP.

(** For every finite process forest (acyclic: some rank decreases from parent to child) the list that
    is killed is exactly the process and all its descendants in the snapshot. *)
Theorem C16_closure :
  forall f rk fuel pid x,
    ranked f rk -> rk pid <= fuel ->
    (In x (kill_list fuel f pid true) <-> x = pid \/ desc f pid x).
Proof. exact kill_list_exact. Qed.
Print Assumptions C16_closure.

(** The list is complete before the first kill, and the children are followed by their descendants; the process is started inside
    the try block whose handler records the interrupt (no window between the fork and the handling; before the repair 637d7d8
    an interrupt while Thread.start() was still waiting left run() without killing anything). *)
Theorem C16_snapshot_before_kill : pids_before_kill = true /\ collect_recursive = true /\ start_inside_try = true.
Proof. repeat split; reflexivity. Qed.
Print Assumptions C16_snapshot_before_kill.

(** The decision, whatever Thread.is_alive() reports after an interrupted join: the tree is killed iff a
    limit is set or ReBench was interrupted, and the process has not finished. *)
Theorem C16_decision :
  forall limit interrupted finished alive,
    kills (decide limit interrupted finished alive) = (limit || interrupted) && negb finished.
Proof. intros [|] [|] [|] [|]; reflexivity. Qed.
Print Assumptions C16_decision.

(** A process that finished in time is never killed; without a limit and without an interrupt nothing
    is killed; after an interrupt the exception is raised again, after the kill if there is one. *)
Theorem C16_in_time_not_killed :
  forall limit interrupted alive, kills (decide limit interrupted true alive) = false.
Proof. intros [|] [|] [|]; reflexivity. Qed.
Print Assumptions C16_in_time_not_killed.

Theorem C16_no_limit_no_kill :
  forall finished alive, decide false false finished alive = AReturn.
Proof. intros [|] [|]; reflexivity. Qed.
Print Assumptions C16_no_limit_no_kill.

Theorem C16_interrupt_reraised :
  forall limit finished alive,
    decide limit true finished alive = (if finished then ARaise else AKillRaise).
Proof. intros [|] [|] [|]; reflexivity. Qed.
Print Assumptions C16_interrupt_reraised.

(** Limits of ten minutes and more are waited for in slices: the total waiting time is the limit, or the run time of
    the process if that is shorter - never more - and every slice is at most ten minutes. *)
Theorem C16_long_limit_exact :
  forall fuel limit run,
    (0 <= limit)%Z -> (limit <= 600 * Z.of_nat fuel)%Z ->
    fst (join_loop fuel limit run 0) = Z.max 0 (Z.min limit run)
    /\ forall x, In x (snd (join_loop fuel limit run 0)) -> (0 < x <= 600)%Z.
Proof.
  intros fuel limit run H0 Hf. split.
  - apply join_loop_waits; lia.
  - intros x Hx. apply (join_loop_slices fuel limit run 0 x H0 Hx).
Qed.
Print Assumptions C16_long_limit_exact.

(** A timed-out invocation (exit status -9) is a failure, or with ignore_timeouts what the adapter
    makes of the output printed so far. *)
Theorem C16_classification :
  forall c out,
    classify false c (OExit E_TIMEOUT out) =
    (if r_ignore_timeouts c
     then match adapter_result false out with Some n => COk n | None => CFail end
     else CFail).
Proof.
  intros c out. unfold classify, E_TIMEOUT. simpl. destruct (r_ignore_timeouts c); reflexivity.
Qed.
Print Assumptions C16_classification.

(** Non-vacuity: a tree of depth 3 with a sibling. *)
Example C16_example :
  let f := forest_of [(10, [11; 12]); (11, [13]); (13, [14])]%nat in
  kill_list 4 f 10 true = [10; 11; 12; 13; 14]%nat /\ kill_list 4 f 10 false = [10]%nat
  /\ decide true false false false = AKillTimeout /\ decide false true false false = AKillRaise.
Proof. vm_compute. repeat split; reflexivity. Qed.
