(** C17 - ReBenchDB receives every data point exactly once despite transport failures.
    Statements only; proofs in Proofs/DbCacheP.v.  The model (Model/DbCache.v) is tied to
    rebench/persistence.py (_ReBenchDB) and rebench/rebenchdb.py by harness/c17.py. *)
From Coq Require Import List ZArith Bool Arith Permutation.
Import ListNotations.
From RV Require Import Model.DbCache Proofs.DbCacheP Proofs.DbCacheV2P.

(** For every server behaviour and every sequence of events (data points added, send_data() at
    any times, close()): the data points handed to the persistence are, as a multiset, exactly
    those in acknowledged requests plus those still cached. *)
Theorem C17_conservation :
  forall srv t0 evs,
    Permutation (sent (run_events srv t0 evs) ++ flat (cache (run_events srv t0 evs))) (added evs).
Proof. exact conservation. Qed.
Print Assumptions C17_conservation.

(** No data point is contained in two acknowledged requests. *)
Theorem C17_at_most_once :
  forall srv t0 evs, NoDup (added evs) -> NoDup (sent (run_events srv t0 evs)).
Proof. exact at_most_once. Qed.
Print Assumptions C17_at_most_once.

(** A failed request (all tries refused / 5xx, or a 4xx answer) leaves the cache as it was. *)
Theorem C17_kept_on_failure :
  forall srv s,
    fst (transmit srv (next_req s)) = false ->
    cache (send_and_empty srv s) = cache s /\ acked (send_and_empty srv s) = acked s.
Proof. exact failed_keeps_cache. Qed.
Print Assumptions C17_kept_on_failure.

(** If the final transmission (close) succeeds, every data point of the session has been
    acknowledged exactly once. *)
Theorem C17_exactly_once_if_final_ok :
  forall srv t0 evs,
    fst (transmit srv (next_req (run_events srv t0 evs))) = true ->
    Permutation (sent (run_events srv t0 (evs ++ [EClose]))) (added evs).
Proof. exact exactly_once_if_final_ok. Qed.
Print Assumptions C17_exactly_once_if_final_ok.

(** One request succeeds iff an acknowledgement arrives within five tries that are preceded only
    by refused connections / 5xx answers; it makes between one and five tries and stops at 4xx. *)
Theorem C17_request_policy :
  (forall srv k, fst (transmit srv k) = true <->
     exists j, j <= 4 /\ srv (k + j) = Ack /\ forall i, i < j -> srv (k + i) = Refuse \/ srv (k + i) = S5xx)
  /\ (forall srv k, k < snd (transmit srv k) <= k + 5)
  /\ (forall srv k, srv k = S4xx -> transmit srv k = (false, S k)).
Proof.
  split; [|split].
  - intros; apply send_retries_ok_iff.
  - intros; apply send_retries_bound.
  - intros; apply send_retries_4xx; assumption.
Qed.
Print Assumptions C17_request_policy.

(** API v1: the receiver, using the criteria index of the request, reads back exactly the data
    points (invocation, iteration, measurements in order) of every run, whatever criteria sets
    the data points have. *)
Theorem C17_payload_v1 : forall data, decode_v1 (encode_v1 data) = data.
Proof. exact v1_roundtrip. Qed.
Print Assumptions C17_payload_v1.

(** API v2 (one entry per invocation, one column per criterion index, values by iteration with
    None padding): whenever the conversion returns a request, the receiver reads back, run by run,
    exactly the measurements (invocation, iteration, criterion, value) of the data points - as a
    multiset, the layout groups them by criterion - for every layout of sparse and differing
    criteria sets, provided the data is what the recorder delivers: one data point per
    (invocation, iteration) with iterations >= 1 increasing per invocation, criteria distinct
    inside a data point.  (The format cannot represent anything else: DbCacheV2P.v2_dup_criterion_misplaced.) *)
Theorem C17_payload_v2 : forall data p,
  wf_data data -> encode_v2 data = Some p ->
  Forall2 (fun rd re => fst re = fst rd /\ Permutation (snd re) (meas_of (snd rd))) data (decode_v2 p).
Proof. exact v2_roundtrip. Qed.
Print Assumptions C17_payload_v2.

(** ... and the conversion does return a request (no IndexError in add_measurements_api_v20)
    whenever the data points of one invocation of a run are adjacent, as recorder and loader
    deliver them. *)
Theorem C17_payload_v2_total :
  forall data, (forall rd, In rd data -> contig (snd rd)) -> encode_v2 data <> None.
Proof. exact v2_total. Qed.
Print Assumptions C17_payload_v2_total.

(** Both, behind the executable guards the correspondence evaluates on every generated data set. *)
Theorem C17_payload_v2_guarded : forall data,
  wf_datab data = true -> contig_datab data = true ->
  exists p, encode_v2 data = Some p /\
    Forall2 (fun rd re => fst re = fst rd /\ Permutation (snd re) (meas_of (snd rd))) data (decode_v2 p).
Proof. exact v2_guarded. Qed.
Print Assumptions C17_payload_v2_guarded.

(** Non-vacuity of the two v2 theorems: sparse criteria over two invocations. *)
Example C17_v2_example :
  wf_ds ex_ds /\ contig ex_ds /\
  option_map decode_v2 (encode_v2 [(0, ex_ds)]) =
    Some [(0, [(1, 1, 7, 10%Z); (1, 1, 8, 11%Z); (1, 3, 9, 12%Z); (2, 2, 8, 13%Z); (2, 2, 5, 14%Z)])].
Proof. exact v2_example. Qed.

(** Non-vacuity: two runs, a refused transmission in between, close succeeds. *)
Example C17_example :
  let srv := srv_of [Refuse; Refuse; Refuse; Refuse; Refuse; Ack] in
  let evs := [EAdd 0 1; EAdd 1 2; ESend 100; EAdd 0 3] in
  flat (cache (run_events srv 0 evs)) = [1; 3; 2]
  /\ sent (run_events srv 0 evs) = []
  /\ sent (run_events srv 0 (evs ++ [EClose])) = [1; 3; 2]
  /\ NoDup (added evs).
Proof. vm_compute. repeat split; try reflexivity. repeat constructor; simpl; intuition discriminate. Qed.
