(** C15 - Streaming statistics equal the textbook values.
    [add_sample] is REGENERATED from rebench/statistics.py on every run (Gen/GenWelford.v) over an
    abstract arithmetic signature; the theorems are about its instance at the real numbers.
    (The binary64 instance of the same expression is compared bit for bit with CPython by the
    correspondence check; no floating-point error bound is proved - see DESIGN.md.) *)
From Coq Require Import List Reals Permutation.
Import ListNotations.
From RV Require Import Gen.GenWelford Model.WelfordR Proofs.WelfordP.
Local Open Scope R_scope.

(** After any non-empty sequence of samples: count, arithmetic mean, sum of squared deviations,
    population standard deviation, minimum and maximum are those of the complete list. *)
Theorem C15_textbook :
  forall l, l <> [] ->
    let s := rfold l rinit in
    w_n _ s = length l /\ w_mean _ s = mean_of l /\ w_m2 _ s = ssd (mean_of l) l
    /\ w_std _ s = pstdev l
    /\ (exists x r, l = x :: r /\ w_min _ s = list_min x r /\ w_max _ s = list_max x r).
Proof. exact textbook. Qed.
Print Assumptions C15_textbook.

(** [list_min]/[list_max] are the least / greatest element. *)
Theorem C15_min_max_meaning :
  forall x r, (In (list_min x r) (x :: r) /\ forall y, In y (x :: r) -> list_min x r <= y)
           /\ (In (list_max x r) (x :: r) /\ forall y, In y (x :: r) -> y <= list_max x r).
Proof. intros x r. exact (conj (min_is_least x r) (max_is_greatest x r)). Qed.
Print Assumptions C15_min_max_meaning.

(** The order in which samples arrive does not matter ... *)
Theorem C15_order_free :
  forall l l', l <> [] -> Permutation l l' ->
    let s := rfold l rinit in let s' := rfold l' rinit in
    w_n _ s = w_n _ s' /\ w_mean _ s = w_mean _ s' /\ w_m2 _ s = w_m2 _ s' /\ w_std _ s = w_std _ s'
    /\ w_min _ s = w_min _ s' /\ w_max _ s = w_max _ s'.
Proof. exact order_free. Qed.
Print Assumptions C15_order_free.

(** ... nor does the grouping (per invocation, per session). *)
Theorem C15_grouping : forall l1 l2, rfold (l1 ++ l2) rinit = rfold l2 (rfold l1 rinit).
Proof. exact grouping. Qed.
Print Assumptions C15_grouping.

(** Warm-up exclusion by position (measuring) and by iteration number (reloading) select the same
    data points of an invocation whose data points are numbered 1..k in order. *)
Theorem C15_warmup_agree :
  forall (A : Type) (w : nat) (l : list A), live_filter w (number 1 l) = reload_filter w (number 1 l).
Proof. exact @warmup_agree. Qed.
Print Assumptions C15_warmup_agree.

(** Reloaded samples are within eps = 5e-7 of the measured ones ('%f'); so are the means. *)
Theorem C15_reload_close :
  forall eps l l', l <> [] -> Forall2 (fun x y => Rabs (x - y) <= eps) l l' ->
    Rabs (mean_of l - mean_of l') <= eps.
Proof. exact reload_close. Qed.
Print Assumptions C15_reload_close.

(** Non-vacuity: the state after [2; 4; 9] *)
Example C15_example : w_n _ (rfold [2; 4; 9] rinit) = 3%nat /\ w_mean _ (rfold [2; 4; 9] rinit) = 5.
Proof.
  destruct (textbook [2; 4; 9] ltac:(discriminate)) as (H1 & H2 & _). split; [exact H1|].
  rewrite H2. unfold mean_of; cbn. field.
Qed.
