(** C08 - interrupting at any invocation boundary and resuming is equivalent to not interrupting.
    Statements only; proofs in Proofs/ResumeP.v and Proofs/MachineP.v.  An interruption while a process
    runs loses that process: the interrupted session is a session over a shorter list of picks.  The
    next session starts from what the data file holds (completed invocations, samples) with fresh
    failure counters.  Tied to rebench/executor.py, rebench/persistence.py and rebench/rebench.py by
    harness/c08.py (real interruptions by INT / TERM / KILL at every process start). *)
From Coq Require Import List ZArith Bool Arith.
Import ListNotations.
From RV Require Import Gen.GenTermination Model.Retry Model.Machine Proofs.RetryP Proofs.MachineP Proofs.ResumeP.
From RV Require Import Gen.GenFactsSession.
Local Open Scope Z_scope.

(** For a harness that is a function of (run, invocation number): any two histories of interrupted and
    resumed sessions (any number of sessions, each cut after any number of steps, any scheduler
    picks) whose last session finishes run r record the same (invocation, data points) sequence for
    r and leave the same progress in the file - in particular the same as one uninterrupted session
    (a history without earlier sessions). *)
Theorem C08_resume_equiv :
  forall w r pss1 ps1 pss2 ps2 loaded,
    no127 w -> det w r -> runnable w r -> 0 <= snd (loaded r) ->
    let h1 := hist w r pss1 loaded in let h2 := hist w r pss2 loaded in
    let g1 := session w ps1 (ginit (snd h1)) in let g2 := session w ps2 (ginit (snd h2)) in
    fin_at g1 r -> fin_at g2 r ->
    fst h1 ++ recs_only (starts_recs r (g_trace g1)) = fst h2 ++ recs_only (starts_recs r (g_trace g2))
    /\ reload g1 r = reload g2 r.
Proof. exact hist_resume_equiv. Qed.
Print Assumptions C08_resume_equiv.

(** Over a whole history every invocation is recorded once, numbered without gaps from what the file
    held at the beginning: no (run, invocation) that delivered data is executed twice. *)
Theorem C08_each_invocation_once :
  forall w r pss ps loaded,
    no127 w -> det w r -> runnable w r -> 0 <= snd (loaded r) ->
    let h := hist w r pss loaded in let g := session w ps (ginit (snd h)) in
    fin_at g r ->
    let all := fst h ++ recs_only (starts_recs r (g_trace g)) in
    map fst all = seqZ (fst (loaded r) + 1) (length all).
Proof. exact hist_numbers. Qed.
Print Assumptions C08_each_invocation_once.

(** A session on a file in which run r is complete starts nothing for r and leaves its progress. *)
Theorem C08_idempotent :
  forall w ps loaded r,
    no127 w ->
    terminated (d_cfg (w_desc w r)) (rstate_init (fst (loaded r)) (snd (loaded r))) = true ->
    starts_recs r (g_trace (session w ps (ginit loaded))) = []
    /\ s_completed (l_st (g_loc (session w ps (ginit loaded)) r)) = fst (loaded r).
Proof. exact complete_run_not_started. Qed.
Print Assumptions C08_idempotent.

(** The data file is loaded before anything is executed, and the data files are closed in a finally
    block of Executor.execute (read off the source on every run): what an interrupted session
    recorded is flushed and is what the next session starts from. *)
Theorem C08_load_before_execute : load_before_execute = true /\ close_in_finally = true.
Proof. split; reflexivity. Qed.
Print Assumptions C08_load_before_execute.

(** Non-vacuity: 2 runs x 3 invocations, invocation 3 of run 1 always fails; cut after 2 and after 3 steps, then finished. *)
Definition w08 : world :=
  {| w_n := 2;
     w_desc := fun r => {| d_cfg := {| r_invocations := 3; r_retries := 1; r_warmup := 1; r_ignore_timeouts := false |};
                           d_exe := 0; d_blds := [1%nat]; d_adapter_ok := true |};
     w_harness := fun r inv k => if (Nat.eqb r 1 && (inv =? 3))%bool then OExit 1 Unparsable else OExit 0 (Parsable 2);
     w_bh := fun _ => true; w_faulty := false; w_builds := true |}.
Example C08_example :
  let z := fun _ : nat => (0, 0) in
  let h := hist w08 0 [[0; 1]; [1; 0; 0]]%nat z in
  let g := session w08 [0; 1; 1; 0]%nat (ginit (snd h)) in
  let full := session w08 [0; 0; 0; 0; 1; 1; 1; 1]%nat (ginit z) in
  all_finished w08 g = true /\ all_finished w08 full = true
  /\ fst h ++ recs_only (starts_recs 0 (g_trace g)) = [(1, 2%nat); (2, 2%nat); (3, 2%nat)]
  /\ recs_only (starts_recs 0 (g_trace full)) = [(1, 2%nat); (2, 2%nat); (3, 2%nat)]
  /\ reload g 1%nat = (2, 2) /\ reload full 1%nat = (2, 2).
Proof. vm_compute. repeat split; reflexivity. Qed.
