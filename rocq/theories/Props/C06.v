(** C06 - every parsed data point is recorded exactly once, in the right file, attributed.
    Statements only; proofs in Proofs/DataFileP.v.  The model (Model/DataFile.v) is tied to
    rebench/persistence.py by harness/c06.py (bytes of real data files after real sessions). *)
From Coq Require Import List ZArith NArith Bool Arith.
Import ListNotations.
From RV Require Import Lib.Str Model.DataFile Proofs.DataFileP.
From RV Require Import Gen.GenFactsPersist.

(** What a session appends to a loadable file is read back by the loader as exactly the data
    points it recorded - each once, whole, in order, for the right run, warm-up included - and
    nothing else; the file stays loadable. *)
Theorem C06_recorded_exactly_once :
  forall file dps,
    crashed (load file) = false -> Forall dp_ok dps ->
    let f' := file ++ session_lines file dps in
    crashed (load f') = false /\
    exists new, loaded (load f') = loaded (load file) ++ new /\ map dp_view new = map nd_view dps.
Proof. exact session_roundtrip. Qed.
Print Assumptions C06_recorded_exactly_once.

(** A recording session first appends its metadata block; the column header follows iff the file
    was empty, and appears nowhere else in what is appended. *)
Theorem C06_meta_block_and_header :
  forall file d dps,
    exists rest, session_lines file (d :: dps) =
      meta_block ++ (match file with [] => [LHeader] | _ => [] end) ++ rest /\ ~ In LHeader rest.
Proof. exact session_lines_shape. Qed.
Print Assumptions C06_meta_block_and_header.

(** Earlier lines are never altered: the new file is the old one followed by what was appended. *)
Theorem C06_append_only :
  forall file dps, firstn (length file) (file ++ session_lines file dps) = file.
Proof. intros. rewrite firstn_app, Nat.sub_diag, firstn_all. simpl. apply app_nil_r. Qed.
Print Assumptions C06_append_only.

(** One measurement is one line whose columns are read back exactly, whatever characters
    (tabs, line ends, backslashes, non-ASCII) the names, arguments, criteria and units contain. *)
Theorem C06_columns :
  forall cols, cols <> [] ->
    read_columns (write_columns cols) = cols
    /\ ~ In c_lf (write_columns cols) /\ ~ In c_cr (write_columns cols).
Proof. exact columns_roundtrip. Qed.
Print Assumptions C06_columns.

(** Read off the writer on every run: the data file is opened in append mode and the column header is written only
    when the file was empty at that moment; a data point's lines are written and flushed inside the persistence
    lock, and so is the lazy opening of the file that appends the session's metadata block (under the parallel scheduler
    two threads cannot both find the file unopened).  These are the assumptions under which Model.session_lines describes the writer. *)
Theorem C06_writer_structure : header_iff_empty = true /\ persist_locked = true /\ open_locked = true.
Proof. repeat split; reflexivity. Qed.
Print Assumptions C06_writer_structure.

(** Non-vacuity: two data points of one new run appended to an empty file. *)
Example C06_example :
  let d1 := {| n_run := 7; n_bench := 3; n_inv := 1; n_ms := [(1, false, 5%Z); (1, true, 9%Z)] |} in
  let d2 := {| n_run := 7; n_bench := 3; n_inv := 1; n_ms := [(2, true, 8%Z)] |} in
  Forall dp_ok [d1; d2] /\ crashed (load []) = false
  /\ length (session_lines [] [d1; d2]) = 10
  /\ map dp_view (loaded (load (session_lines [] [d1; d2]))) = map nd_view [d1; d2].
Proof.
  split; [|vm_compute; repeat split; reflexivity].
  repeat constructor.
  - exists [(1, false, 5%Z)], 1, 9%Z. split; [reflexivity | repeat constructor].
  - exists [], 2, 8%Z. split; [reflexivity | constructor].
Qed.
