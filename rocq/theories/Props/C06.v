(** C06 - every parsed data point is recorded exactly once, in the right file, attributed.
    Statements only; proofs in Proofs/DataFileP.v.  The model (Model/DataFile.v) is tied to
    rebench/persistence.py by harness/c06.py (bytes of real data files after real sessions). *)
From Coq Require Import List ZArith NArith Bool Arith.
Import ListNotations.
From RV Require Import Lib.Str Model.DataFile Proofs.DataFileP.
From RV Require Import Gen.GenFactsPersist Model.Store Proofs.StoreP.

(** What a session appends to a loadable file is read back by the loader as exactly the data
    points it recorded - each once, whole, in order, for the right run, warm-up included - and
    nothing else; the file stays loadable. *)
Theorem C06_recorded_exactly_once :
  forall file dps,
    crashed (load file) = false -> Forall dp_ok dps ->
    let f' := file ++ session_lines file dps in
    crashed (load f') = false /\
    exists new, loaded (load f') = loaded (load file) ++ new /\ map dp_view new = map nd_view dps.
Proof. exact session_roundtrip. Qed.
Print Assumptions C06_recorded_exactly_once.

(** A recording session first appends its metadata block; the column header follows iff the file
    was empty, and appears nowhere else in what is appended. *)
Theorem C06_meta_block_and_header :
  forall file d dps,
    exists rest, session_lines file (d :: dps) =
      meta_block ++ (match file with [] => [LHeader] | _ => [] end) ++ rest /\ ~ In LHeader rest.
Proof. exact session_lines_shape. Qed.
Print Assumptions C06_meta_block_and_header.

(** Earlier lines are never altered: the new file is the old one followed by what was appended. *)
Theorem C06_append_only :
  forall file dps, firstn (length file) (file ++ session_lines file dps) = file.
Proof. intros. rewrite firstn_app, Nat.sub_diag, firstn_all. simpl. apply app_nil_r. Qed.
Print Assumptions C06_append_only.

(** One measurement is one line whose columns are read back exactly, whatever characters
    (tabs, line ends, backslashes, non-ASCII) the names, arguments, criteria and units contain. *)
Theorem C06_columns :
  forall cols, cols <> [] ->
    read_columns (write_columns cols) = cols
    /\ ~ In c_lf (write_columns cols) /\ ~ In c_cr (write_columns cols).
Proof. exact columns_roundtrip. Qed.
Print Assumptions C06_columns.

(** Read off the writer on every run: the data file is opened in append mode and the column header is written only
    when the file was empty at that moment; a data point's lines are written and flushed inside the persistence
    lock, and so is the lazy opening of the file that appends the session's metadata block (under the parallel scheduler
    two threads cannot both find the file unopened).  These are the assumptions under which Model.session_lines describes the writer. *)
Theorem C06_writer_structure : header_iff_empty = true /\ persist_locked = true /\ open_locked = true.
Proof. repeat split; reflexivity. Qed.
Print Assumptions C06_writer_structure.

(** In the right file: for ANY assignment of runs to experiments and of experiments to data files, and any sequence of data
    points, a file holds - in the order measured - exactly the data points of the runs that belong to an experiment recorded
    in that file; each as often as it was measured there (once), and never in a file of an experiment the run is not part of,
    even when several experiments of a run name the same file.  The shape this rests on is read off the source on every run:
    the data store hands out one persistence per file name, a run keeps its persistences in a set, every member gets the
    data point, an experiment adds the persistence of its own file to its runs and nothing else does. *)
Theorem C06_in_the_right_file :
  (forall membership ds g, rev (session membership ds g) = filter (belongs membership g) ds)
  /\ (forall membership ds g d,
        count_occ rec_eq_dec (session membership ds g) d = if belongs membership g d then count_occ rec_eq_dec ds d else 0)
  /\ store_one_persistence_per_name = true /\ persistences_are_a_set = true
  /\ every_persistence_gets_the_data_point = true /\ experiment_adds_its_file = true.
Proof. split; [exact session_spec|]. split; [exact recorded_exactly_where_it_belongs|]. repeat split; reflexivity. Qed.
Print Assumptions C06_in_the_right_file.

Example C06_store_example :
  let membership := fun r => nth r [[0; 1; 0]; [1]]%nat [] in     (* run 0 in two experiments on file 0 and one on file 1 *)
  let ds := [{| r_run := 0; r_serial := 11 |}; {| r_run := 1; r_serial := 21 |}; {| r_run := 0; r_serial := 12 |}]%nat in
  map r_serial (rev (session membership ds 0%nat)) = [11; 12]%nat
  /\ map r_serial (rev (session membership ds 1%nat)) = [11; 21; 12]%nat
  /\ session membership ds 2%nat = [].
Proof. vm_compute. repeat split; reflexivity. Qed.

(** Non-vacuity: two data points of one new run appended to an empty file. *)
Example C06_example :
  let d1 := {| n_run := 7; n_bench := 3; n_inv := 1; n_ms := [(1, false, 5%Z); (1, true, 9%Z)] |} in
  let d2 := {| n_run := 7; n_bench := 3; n_inv := 1; n_ms := [(2, true, 8%Z)] |} in
  Forall dp_ok [d1; d2] /\ crashed (load []) = false
  /\ length (session_lines [] [d1; d2]) = 10
  /\ map dp_view (loaded (load (session_lines [] [d1; d2]))) = map nd_view [d1; d2].
Proof.
  split; [|vm_compute; repeat split; reflexivity].
  repeat constructor.
  - exists [(1, false, 5%Z)], 1, 9%Z. split; [reflexivity | repeat constructor].
  - exists [], 2, 8%Z. split; [reflexivity | constructor].
Qed.
