(** C02 - Effective settings follow the documented priority, '!' marks and CLI overrides.
    This file contains only statements closed by [exact]; the proofs are in Proofs/SettingsP.v.
    [prefer_important], [is_marked_important], [remove_important] are REGENERATED from
    rebench/model/__init__.py on every run (Gen/GenImportant.v). *)
From Coq Require Import List ZArith Bool.
Import ListNotations.
From RV Require Import Model.PyVal Gen.GenImportant Model.Settings Proofs.SettingsP.
From RV Require Import Gen.GenSettings.

(** invocations / iterations / warmup, for a chain of ANY number of levels (lowest priority
    first): CLI override, else the highest-priority marked value, else the highest-priority value,
    else the default. *)
Theorem C02_marked_any_chain :
  forall (levels : list ival) (d : ival) (cli : option Z),
    forallb wf_ival levels = true -> wf_ival d = true -> marked_value d = None ->
    ival_result (remove_important (match cli with Some n => VInt n | None => pi_fold levels d end))
    = spec_marked levels (plain_or_marked_value d) cli.
Proof. exact marked_any_chain. Qed.
Print Assumptions C02_marked_any_chain.

(** The same through the whole compilation pipeline (ExpRunDetails.compile chain + resolve),
    for every list of levels; the seven documented levels are the instance
    [machine; runs; experiment; execution; executor; suite; benchmark]. *)
Theorem C02_invocations :
  forall c ls, forallb wf_lvl ls = true ->
    ival_result (rd_invocations (effective_list c ls))
    = spec_marked (map l_invocations ls) (Some 1%Z) (cli_inv_override c).
Proof. exact effective_invocations. Qed.
Print Assumptions C02_invocations.

Theorem C02_iterations :
  forall c ls, forallb wf_lvl ls = true ->
    ival_result (rd_iterations (effective_list c ls))
    = spec_marked (map l_iterations ls) (Some 1%Z) (cli_it_override c).
Proof. exact effective_iterations. Qed.
Print Assumptions C02_iterations.

Theorem C02_warmup :
  forall c ls, forallb wf_lvl ls = true ->
    ival_result (rd_warmup (effective_list c ls)) = spec_marked (map l_warmup ls) None None.
Proof. exact effective_warmup. Qed.
Print Assumptions C02_warmup.

(** -in / -it beat everything; -q and --setup-only mean both are 1. *)
Theorem C02_cli_beats_all :
  forall c ls n, forallb wf_lvl ls = true -> cli_inv_override c = Some n ->
    ival_result (rd_invocations (effective_list c ls)) = Some n.
Proof. intros c ls n H Hc. rewrite effective_invocations by exact H. rewrite Hc. reflexivity. Qed.
Print Assumptions C02_cli_beats_all.

Theorem C02_quick_is_one :
  forall c, (cli_quick c || cli_setup_only c) = true ->
    cli_inv_override c = Some 1%Z /\ cli_it_override c = Some 1%Z.
Proof. intros c H. unfold cli_inv_override, cli_it_override. rewrite H. split; reflexivity. Qed.
Print Assumptions C02_quick_is_one.

(** Every other run detail: the highest-priority level that defines it, else the default;
    an explicit [false] / 0 / empty env counts as defined. *)
Theorem C02_plain :
  forall c ls,
    rd_min_iteration_time (effective_list c ls) = spec_plain (map l_min_iteration_time ls) (Some 50%Z)
    /\ rd_max_invocation_time (effective_list c ls) = spec_plain (map l_max_invocation_time ls) (Some (-1)%Z)
    /\ rd_ignore_timeouts (effective_list c ls) = spec_plain (map l_ignore_timeouts ls) None
    /\ rd_execute_exclusively (effective_list c ls) = spec_plain (map l_execute_exclusively ls) (Some true)
    /\ rd_retries (effective_list c ls) = spec_plain (map l_retries ls) (Some 0%Z)
    /\ rd_env (effective_list c ls) = spec_plain (map l_env ls) (Some []).
Proof.
  intros c ls. repeat split.
  - exact (effective_min_iteration_time c ls). - exact (effective_max_invocation_time c ls).
  - exact (effective_ignore_timeouts c ls). - exact (effective_execute_exclusively c ls).
  - exact (effective_retries c ls). - exact (effective_env c ls).
Qed.
Print Assumptions C02_plain.

(** Variable lists: the highest-priority level that defines the list, else the built-in one. *)
Theorem C02_varlists :
  forall (V : Type) (ls : list (vlvl V)) (d : variables V),
    vs_input_sizes (chain_vars ls d) = match last_defined (map v_input_sizes ls) with Some v => v | None => vs_input_sizes d end
    /\ vs_cores (chain_vars ls d) = match last_defined (map v_cores ls) with Some v => v | None => vs_cores d end
    /\ vs_variable_values (chain_vars ls d) = match last_defined (map v_variable_values ls) with Some v => v | None => vs_variable_values d end
    /\ vs_tags (chain_vars ls d) = match last_defined (map v_tags ls) with Some v => v | None => vs_tags d end.
Proof.
  intros V ls d. repeat split.
  - exact (chain_vars_field V v_input_sizes vs_input_sizes (fun _ _ => eq_refl) ls d).
  - exact (chain_vars_field V v_cores vs_cores (fun _ _ => eq_refl) ls d).
  - exact (chain_vars_field V v_variable_values vs_variable_values (fun _ _ => eq_refl) ls d).
  - exact (chain_vars_field V v_tags vs_tags (fun _ _ => eq_refl) ls d).
Qed.
Print Assumptions C02_varlists.

(** Non-vacuity: a seven-level configuration that meets the hypotheses, with a marked value at a
    low-priority level beating plain values above it, and a higher marked value beating it. *)
Example C02_example :
  let ls := map (fun '(k, x) => lvl_with 0 (cell_value k x)) (number_from 0 [2; 1; 0; 2; 1; 0; 1]%nat) in
  forallb wf_lvl ls = true
  /\ ival_result (rd_invocations (effective_list cli_none ls)) = Some 23%Z
  /\ ival_result (rd_invocations (effective_list {| cli_in := Some 5%Z; cli_it := None; cli_quick := false; cli_setup_only := false |} ls)) = Some 5%Z.
Proof. vm_compute. repeat split; reflexivity. Qed.

(** The three methods of ExpRunDetails on which everything above rests - compile (one level merged over the inherited details,
    field by field), default and resolve_override_and_important - are translated from exp_run_details.py on every run
    (Gen/GenSettings.v): every field is compiled from the key of its own name over the inherited value of its own name,
    invocations / iterations / warmup through prefer_important, the others by plain replacement, the two command-line overrides
    are inherited; the model's definitions ARE the translated ones. *)
Theorem C02_compile_is_the_code :
  (forall c d, compile_rd c d = gen_compile_rd c d)
  /\ (forall i t, default_rd i t = gen_default_rd i t)
  /\ (forall d, resolve d = gen_resolve d).
Proof. repeat split; reflexivity. Qed.
Print Assumptions C02_compile_is_the_code.
