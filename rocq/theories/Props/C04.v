(** C04 - Invocation accounting: N recorded invocations, bounded retries, clean failures.
    The decision procedure ([should_terminate] & co) is REGENERATED from
    rebench/model/termination_check.py on every run (Gen/GenTermination.v). *)
From Coq Require Import List ZArith Bool.
Import ListNotations.
From RV Require Import Gen.GenTermination Gen.GenClassify Model.Retry Proofs.RetryP.
Local Open Scope Z_scope.

(** For every outcome sequence, -f setting and configuration: the invocations recorded are
    numbered completed+1, completed+2, ... without gaps or repeats; the final count is the initial
    one plus the number recorded; no process is ever started with a number above N; a recorded
    invocation carries the number the process was started with and at least one data point. *)
Theorem C04_numbering :
  forall f c outs s tr sf fin,
    run_loop f c s outs = (tr, sf, fin) ->
    map fst (recs tr) = seqZ (s_completed s + 1) (length (recs tr))
    /\ s_completed sf = s_completed s + Z.of_nat (length (recs tr))
    /\ Forall (fun e => fst e <= r_invocations c) tr
    /\ Forall (fun e => match snd e with Some (j, n) => j = fst e /\ (0 < n)%nat | None => True end) tr.
Proof. exact loop_numbering. Qed.
Print Assumptions C04_numbering.

Theorem C04_no_start_after_N :
  forall f c outs s tr sf fin,
    run_loop f c s outs = (tr, sf, fin) -> s_completed s <= r_invocations c ->
    s_completed sf <= r_invocations c.
Proof. exact loop_at_most_N. Qed.
Print Assumptions C04_no_start_after_N.

(** A failed invocation records nothing and does not advance the count (without -f a non-zero
    exit status that is not an ignored timeout is a failure; so is any output the adapter rejects). *)
Theorem C04_failure_records_nothing :
  (forall c s, recorded s CFail = None /\ s_completed (apply_cls c s CFail) = s_completed s
               /\ s_samples (apply_cls c s CFail) = s_samples s)
  /\ (forall c rc out, rc <> 0 -> rc <> 127 -> ~ (rc = E_TIMEOUT /\ r_ignore_timeouts c = true) ->
        classify false c (OExit rc out) = CFail)
  /\ (forall f c rc out, rc <> 127 -> adapter_result f out = None -> classify f c (OExit rc out) = CFail).
Proof. exact (conj fail_records_nothing (conj nonzero_exit_fails rejected_output_fails)). Qed.
Print Assumptions C04_failure_records_nothing.

(** After a process ended the run is started again iff the documented policy allows it:
    fewer than N recorded, not marked to fail immediately (missing binary / OSError / failed build),
    fewer than max(retries,1) failures in a row, and failures not excessive
    (failed > 6, or samples > 10 and failed > samples/2). *)
Theorem C04_continue_iff :
  forall c s, counters_ok s -> (terminated c s = false <-> may_continue c s).
Proof. exact terminated_spec. Qed.
Print Assumptions C04_continue_iff.

Theorem C04_counters_reachable :
  (forall completed samples, 0 <= samples -> counters_ok (rstate_init completed samples))
  /\ (forall c s k, counters_ok s -> counters_ok (apply_cls c s k)).
Proof. exact (conj counters_ok_init counters_ok_step). Qed.
Print Assumptions C04_counters_reachable.

Theorem C04_success_resets :
  forall c s n, f_consecutive_erroneous_executions (s_tc (apply_cls c s (COk n))) = 0.
Proof. exact success_resets. Qed.
Print Assumptions C04_success_resets.

(** A run is started at most (N - completed) + 7 times, whatever the outcomes are. *)
Theorem C04_bounded :
  forall f c outs completed samples tr sf fin,
    run_loop f c (rstate_init completed samples) outs = (tr, sf, fin) ->
    Z.of_nat (length tr) <= Z.max 0 (r_invocations c - completed) + 7.
Proof. exact loop_bounded_init. Qed.
Print Assumptions C04_bounded.

(** Exit status 127 (and OSError) abandons the run at once and for good. *)
Theorem C04_127_abandons_run :
  (forall c s k, (k = C127 \/ k = COsErr) -> terminated c (apply_cls c s k) = true)
  /\ (forall c s k, f_fail_immediately (s_tc s) = true -> f_fail_immediately (s_tc (apply_cls c s k)) = true)
  /\ (forall c s, f_fail_immediately (s_tc s) = true -> terminated c s = true).
Proof. exact (conj missing_terminates (conj fail_immediately_sticky fail_immediately_terminated)). Qed.
Print Assumptions C04_127_abandons_run.

(** The loop ends exactly in a state in which the policy says stop. *)
Theorem C04_stops_when_terminated :
  forall f c outs s tr sf fin,
    run_loop f c s outs = (tr, sf, fin) -> (fin = true <-> terminated c sf = true).
Proof. exact loop_finishes_terminated. Qed.
Print Assumptions C04_stops_when_terminated.

(** The model's classification of a finished process IS the code's: the if / elif / else chain of
    Executor._generate_data_point on the exit status is regenerated from the source on every run
    (Gen/GenClassify.rc_classify), and the hand-written Model.Retry.classify is proved equal to it
    for every exit status, both switches and every kind of output.  The shape of the branches (127:
    fail_immediately + executable_missing + stop; failure: indicate_failed_execution without looking at
    the output; otherwise _eval_output, which records every data point and indicates success, or
    indicates a failure when the adapter rejects; OSError: fail_immediately + stop) are obligations
    read off the source as well. *)
Theorem C04_classification_is_the_code :
  (forall f c rc out,
     classify f c (OExit rc out) =
       match rc_classify f (r_ignore_timeouts c) rc with
       | RMissing => C127
       | RFailed => CFail
       | REvaluate => match adapter_result f out with Some n => COk n | None => CFail end
       end)
  /\ missing_branch_ok = true /\ failed_branch_ok = true /\ evaluate_branch_ok = true
  /\ oserror_branch_ok = true /\ eval_output_ok = true.
Proof.
  split; [|repeat split; reflexivity].
  intros f c rc out. unfold classify, rc_classify, E_TIMEOUT.
  destruct (rc =? 127)%Z; [reflexivity|].
  destruct (rc =? 0)%Z, f, (rc =? -9)%Z, (r_ignore_timeouts c); reflexivity.
Qed.
Print Assumptions C04_classification_is_the_code.

(** Non-vacuity: two failures in a row with retries_after_failure = 2 end the run after the
    second; a success in between resets the count. *)
Example C04_example :
  let c := {| r_invocations := 3; r_retries := 2; r_warmup := 0; r_ignore_timeouts := false |} in
  let ok := OExit 0 (Parsable 1) in let bad := OExit 3 (Parsable 1) in
  map fst (fst (fst (run_loop false c (rstate_init 0 0) [bad; ok; bad; bad; ok; ok]))) = [1; 1; 2; 2]
  /\ snd (run_loop false c (rstate_init 0 0) [bad; ok; bad; bad; ok; ok]) = true
  /\ counters_ok (rstate_init 0 0).
Proof. vm_compute. repeat split; discriminate. Qed.
