(** C13 - build scripts run once, first, and a failing one stops exactly its dependents.
    Statements only; proofs in Proofs/MachineP.v.  Tied to rebench/executor.py (_build_executor_and_suite,
    _process_builds, _execute_build_cmd) and rebench/model/build_cmd.py by harness/c13.py. *)
From Coq Require Import List ZArith Bool Arith.
Import ListNotations.
From RV Require Import Gen.GenTermination Model.Retry Model.Machine Proofs.MachineP.
From RV Require Import Gen.GenFactsBuild Model.SetupOnly Proofs.SetupOnlyP.

(** For every session (any picks, any outcomes, any initial progress): a build command is run at
    most once. *)
Theorem C13_once :
  forall w ps loaded, NoDup (blds (g_trace (session w ps (ginit loaded)))).
Proof. exact builds_at_most_once. Qed.
Print Assumptions C13_once.

(** A process of a run is started only after every build the run needs was run successfully. *)
Theorem C13_before_first_use :
  forall w ps loaded t1 r inv t2,
    w_builds w = true ->
    g_trace (session w ps (ginit loaded)) = t1 ++ (r, GStart inv) :: t2 ->
    forall b, In b (d_blds (w_desc w r)) -> exists r', In (r', GBuild b true) t1.
Proof. exact build_before_first_use. Qed.
Print Assumptions C13_before_first_use.

(** A run that needs a failing build is never started; the build's recorded result is the script's. *)
Theorem C13_failure_propagates :
  forall w ps loaded r b,
    w_builds w = true -> In b (d_blds (w_desc w r)) -> w_bh w b = false ->
    forall inv, ~ In (r, GStart inv) (g_trace (session w ps (ginit loaded))).
Proof. exact failed_build_no_start. Qed.
Print Assumptions C13_failure_propagates.

Theorem C13_result_faithful :
  forall w ps loaded r b ok,
    w_builds w = true -> In (r, GBuild b ok) (g_trace (session w ps (ginit loaded))) -> ok = w_bh w b.
Proof. exact build_result_faithful. Qed.
Print Assumptions C13_result_faithful.

(** Runs that do not need the failing build are unaffected (containment, see C10). *)
Theorem C13_independents_unaffected :
  forall w1 w2 ps1 ps2 loaded r,
    no127 w1 -> no127 w2 -> agree_on w1 w2 r ->
    fin_at (session w1 ps1 (ginit loaded)) r -> fin_at (session w2 ps2 (ginit loaded)) r ->
    starts_recs r (g_trace (session w1 ps1 (ginit loaded))) = starts_recs r (g_trace (session w2 ps2 (ginit loaded))).
Proof. intros. apply containment; try assumption; reflexivity. Qed.
Print Assumptions C13_independents_unaffected.

(** With -B nothing is built. *)
Theorem C13_no_builds_with_B :
  forall w ps loaded, w_builds w = false -> blds (g_trace (session w ps (ginit loaded))) = [].
Proof. exact no_builds_without. Qed.
Print Assumptions C13_no_builds_with_B.

(** Checking whether a build was run and running it is one step under the parallel scheduler: both
    happen inside the executor's build lock (read off Executor._build_executor_and_suite on every
    run), so the sequential theorem above applies to the worker threads' steps. *)
Theorem C13_build_locked : build_locked = true.
Proof. reflexivity. Qed.
Print Assumptions C13_build_locked.

(** The life of a build script (read off executor.py and build_cmd.py on every run): _process_builds skips a script that was
    built, refuses one that failed (the run fails immediately, FailedBuilding), and executes it otherwise; _execute_build_cmd marks
    the script failed and fails the run before each of its two ways of raising FailedBuilding, and marks it built as its last
    statement; the two marks are set by these methods only and never reset.  This is the build state of Model.Machine
    (never built / built / failed) on which C13_once and C13_failure_propagates are proved. *)
Theorem C13_build_life_cycle : process_builds_shape = true /\ build_marks_shape = true.
Proof. split; reflexivity. Qed.
Print Assumptions C13_build_life_cycle.

(** One call of Executor.execute_run (read off the source on every run, statement by statement; any other
    statement makes the translation fail): adapter (stop without one), command line, plan mode, termination
    check, THEN the builds - whenever the run is not finished and builds are enabled, whatever its progress -,
    THEN the process - whenever the run is not finished -, the completion report, the result.  This is the order
    and these are the guards of Model.Machine.lstep, on which the theorems above are proved. *)
Theorem C13_execute_run_order :
  execute_run_steps =
    [XAdapter; XStopIfNoAdapter; XCmdline; XPlanOrGoOn; XGetTermCheck; XReportStart; XTermCheck;
     XBuildIf GNotTerminateAndBuilds; XProcessIf GNotTerminate; XReportIfTerminated; XReturnTerminate].
Proof. reflexivity. Qed.
Print Assumptions C13_execute_run_order.

(** --setup-only (the loop of Configurator.get_runs is read off the source: setup_only_shape): in whatever
    order the runs are visited, for every build command that some run of the session needs at least one
    run needing it is kept (and then executed once: invocations = iterations = 1); only runs of the
    session are kept, never one without build commands, and each kept run brings a command no earlier
    kept run had. *)
Theorem C13_setup_only_covers :
  setup_only_shape = true /\ build_commands_are_executor_and_suite = true
  /\ (forall runs r bs b, In (r, bs) runs -> In b bs ->
        exists r' bs', In (r', bs') runs /\ In r' (select_setup [] runs) /\ In b bs')
  /\ (forall runs r, In r (select_setup [] runs) -> exists bs, In (r, bs) runs /\ bs <> []).
Proof.
  split; [reflexivity|]. split; [reflexivity|]. split; [exact setup_only_covers | exact no_builds_not_kept].
Qed.
Print Assumptions C13_setup_only_covers.

Example C13_setup_only_example :
  select_setup [] [(0, [1; 2]); (1, [2]); (2, []); (3, [2; 3]); (4, [1; 3])]%nat = [0; 3]%nat.
Proof. reflexivity. Qed.

(** Non-vacuity: three runs, builds 1 (ok, shared by runs 0 and 1) and 2 (fails, needed by run 2 and run 1). *)
Definition w13 : world :=
  {| w_n := 3;
     w_desc := fun r => {| d_cfg := {| r_invocations := 1; r_retries := 0; r_warmup := 0; r_ignore_timeouts := false |};
                           d_exe := 0; d_blds := match r with 0 => [1] | 1 => [1; 2] | _ => [2] end%nat; d_adapter_ok := true |};
     w_harness := fun r inv k => OExit 0 (Parsable 1);
     w_bh := fun b => Nat.eqb b 1; w_faulty := false; w_builds := true |}.
Example C13_example :
  let g := session w13 [1; 0; 2]%nat (ginit (fun _ => (0, 0)%Z)) in
  map snd (g_trace g) = [GBuild 1 true; GBuild 2 false; GDropped; GStart 1; GRec 1 1; GDropped]
  /\ all_finished w13 g = true /\ exit_ok w13 g = false.
Proof. vm_compute. repeat split; reflexivity. Qed.
