(** C19 - Any configuration is either accepted or rejected with a diagnostic (typed part).
    The theorems are about the typed configuration AST (what YAML loading and schema validation
    let through); PyYAML and pykwalify themselves are outside the model, for untyped documents the
    claim rests on the differential exploration (PARTIAL, see DESIGN.md). *)
From Coq Require Import List Bool.
Import ListNotations.
From RV Require Import Lib.Str Model.Settings Model.Compile Proofs.CompileP.

(** compilation never ends in an unhandled exception: it yields runs or a user error *)
Theorem C19_total : forall cfg sel, compile cfg sel <> Crash.
Proof. exact compile_no_crash. Qed.
Print Assumptions C19_total.

Theorem C19_accept_or_reject :
  forall cfg sel, compile cfg sel = UserErr \/ exists rs, compile cfg sel = Ok rs.
Proof. exact rejected_iff_incomplete. Qed.
Print Assumptions C19_accept_or_reject.

(** every configuration that follows the documented format is accepted *)
Theorem C19_complete_accepted : forall cfg sel, complete cfg sel -> exists rs, compile cfg sel = Ok rs.
Proof. exact complete_accepted. Qed.
Print Assumptions C19_complete_accepted.
