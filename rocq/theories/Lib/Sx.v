(** Universal exchange format between the executable models and the Python harness:
    every model result is converted to an [sx] and printed by [Eval vm_compute]. *)
From Coq Require Import List ZArith NArith.
Import ListNotations.

Inductive sx := I (z : Z) | L (l : list sx).

Definition sx_Z (z : Z) : sx := I z.
Definition sx_N (n : N) : sx := I (Z.of_N n).
Definition sx_nat (n : nat) : sx := I (Z.of_nat n).
Definition sx_bool (b : bool) : sx := I (if b then 1 else 0)%Z.
Definition sx_str (s : list N) : sx := L (map sx_N s).
Definition sx_list {A} (f : A -> sx) (l : list A) : sx := L (map f l).
Definition sx_opt {A} (f : A -> sx) (o : option A) : sx :=
  match o with None => L [] | Some a => L [f a] end.
Definition sx_pair {A B} (f : A -> sx) (g : B -> sx) (p : A * B) : sx := L [f (fst p); g (snd p)].
