(** Strings are lists of Unicode code points ([N]). *)
From Coq Require Import List NArith Bool Lia.
Import ListNotations.

Definition ch := N.
Definition str := list ch.

Fixpoint str_eqb (a b : str) : bool :=
  match a, b with
  | [], [] => true
  | x :: a', y :: b' => (x =? y)%N && str_eqb a' b'
  | _, _ => false
  end.

Lemma str_eqb_spec a b : reflect (a = b) (str_eqb a b).
Proof.
  revert b; induction a as [|x a IH]; intros [|y b]; simpl; try (constructor; congruence).
  destruct (N.eqb_spec x y); simpl.
  - destruct (IH b); constructor; congruence.
  - constructor; congruence.
Qed.

Lemma str_eqb_refl a : str_eqb a a = true.
Proof. destruct (str_eqb_spec a a); congruence. Qed.

Lemma str_eqb_eq a b : str_eqb a b = true <-> a = b.
Proof. destruct (str_eqb_spec a b); split; congruence. Qed.
