(** A backtracking regular-expression matcher with CPython's priorities, as a list of successes
    in priority order (greedy repeats: longer first; alternation: left first; captures: last
    iteration wins).  Structurally recursive on the expression; repeats recurse on a bound
    [S (length s)], which is never the reason for stopping because the translator only admits
    repeat bodies that consume at least one character.
    The expressions themselves are GENERATED from the Python source (Gen/GenRegex.v); this engine
    is the trusted description of `re` and is differentially tested against `re` on every run. *)
From Coq Require Import List NArith Bool Arith Lia.
Import ListNotations.
From RV Require Import Lib.Str.

(** Unicode classes of non-ASCII code points (CPython's tables): arbitrary in the theorems. *)
Record uclass := { u_word : N -> bool; u_digit : N -> bool; u_space : N -> bool }.

Inductive cls :=
| CAny                       (* .   : anything but "\n" *)
| CLit (c : ch)
| CRange (a b : ch)
| CWord | CDigit | CSpace    (* \w \d \s *)
| CNot (c : cls)
| COr (a b : cls).

Inductive re :=
| Eps
| Chr (c : cls)
| Seq (a b : re)
| Alt (a b : re)
| Rep (min : nat) (max : option nat) (a : re)   (* greedy *)
| Grp (i : nat) (a : re)
| Bol.                                          (* ^ without MULTILINE *)

Definition caps := list (nat * (nat * nat)).    (* group -> (start, end), most recent first *)
Definition res := list (caps * nat * str).      (* captures, position, rest of input *)

Definition is_ascii_digit (c : ch) : bool := ((48 <=? c) && (c <=? 57))%N.
Definition is_ascii_word (c : ch) : bool :=
  (is_ascii_digit c || ((65 <=? c) && (c <=? 90)) || ((97 <=? c) && (c <=? 122)) || (c =? 95))%N.
Definition is_ascii_space (c : ch) : bool :=
  (((9 <=? c) && (c <=? 13)) || (c =? 32) || ((28 <=? c) && (c <=? 31)))%N.

Section Engine.
  Variable U : uclass.

  Fixpoint cin (k : cls) (c : ch) : bool :=
    match k with
    | CAny => negb (c =? 10)%N
    | CLit d => (c =? d)%N
    | CRange a b => ((a <=? c) && (c <=? b))%N
    | CWord => if (c <? 128)%N then is_ascii_word c else u_word U c
    | CDigit => if (c <? 128)%N then is_ascii_digit c else u_digit U c
    | CSpace => if (c <? 128)%N then is_ascii_space c else u_space U c
    | CNot k' => negb (cin k' c)
    | COr a b => cin a c || cin b c
    end.

  Section Rep.
    Variable body : nat -> str -> caps -> res.
    Fixpoint rep (n mn : nat) (mx : option nat) (pos : nat) (s : str) (cs : caps) : res :=
      match n with
      | O => match mn with O => [(cs, pos, s)] | _ => [] end
      | S n' =>
          let more :=
            match mx with
            | Some O => []
            | _ => flat_map (fun '(c1, p1, s1) =>
                               if Nat.ltb pos p1 then rep n' (pred mn) (option_map pred mx) p1 s1 c1 else [])
                            (body pos s cs)
            end in
          match mn with O => more ++ [(cs, pos, s)] | _ => more end
      end.
  End Rep.

  Fixpoint mt (r : re) (pos : nat) (s : str) (cs : caps) : res :=
    match r with
    | Eps => [(cs, pos, s)]
    | Bol => if Nat.eqb pos 0 then [(cs, pos, s)] else []
    | Chr k => match s with c :: t => if cin k c then [(cs, S pos, t)] else [] | [] => [] end
    | Seq a b => flat_map (fun '(c1, p1, s1) => mt b p1 s1 c1) (mt a pos s cs)
    | Alt a b => mt a pos s cs ++ mt b pos s cs
    | Grp i a => map (fun '(c1, p1, s1) => ((i, (pos, p1)) :: c1, p1, s1)) (mt a pos s cs)
    | Rep mn mx a => rep (mt a) (S (length s)) mn mx pos s cs
    end.

  (** re.match: the best match starting at offset 0 *)
  Definition re_match (r : re) (s : str) : option caps :=
    match mt r 0 s [] with (cs, _, _) :: _ => Some cs | [] => None end.

  (** re.search: the best match at the leftmost offset at which there is one *)
  Fixpoint search_from (r : re) (pos : nat) (s : str) : option caps :=
    match mt r pos s [] with
    | (cs, _, _) :: _ => Some cs
    | [] => match s with [] => None | _ :: t => search_from r (S pos) t end
    end.
  Definition re_search (r : re) (s : str) : bool :=
    match search_from r 0 s with Some _ => true | None => false end.
End Engine.

Fixpoint cap_lookup (i : nat) (cs : caps) : option (nat * nat) :=
  match cs with
  | [] => None
  | (j, se) :: r => if Nat.eqb i j then Some se else cap_lookup i r
  end.

Definition substr (s : str) (a b : nat) : str := firstn (b - a) (skipn a s).

(** match.group(i): None when the group did not take part *)
Definition group (s : str) (cs : caps) (i : nat) : option str :=
  match cap_lookup i cs with Some (a, b) => Some (substr s a b) | None => None end.

Definition lit (s : str) : re := fold_right (fun c r => Seq (Chr (CLit c)) r) Eps s.
